// ---- trusted cosmwasm-std / cw-storage-plus / cw20 prelude (ASSUMED contracts on dependencies) ----
// Storage is one ghost byte map; (de)serialisation is an uninterpreted injective encoding.
// Every mutator states the WHOLE new map (frame included).

// ---------- strings / addresses ----------
/// extensionality for std String (exec `==` is view equality; this lifts it to spec equality)
pub broadcast axiom fn ax_string_ext(a: String, b: String) requires #[trigger] a@ == #[trigger] b@ ensures a == b;

/// `x.to_string()` for String / &String returns an equal string (vstd leaves it uninterpreted for non-str types)
pub broadcast axiom fn ax_to_string_string(t: &String, s: String)
    ensures #[trigger] vstd::string::to_string_from_display_ensures::<String>(t, s) <==> s@ == t@;
pub struct Addr { pub s: String }
impl Clone for Addr { #[verifier::external_body] fn clone(&self) -> (r: Self) ensures r == *self { unimplemented!() } }
impl PartialEqSpecImpl for Addr { open spec fn obeys_eq_spec() -> bool { true } open spec fn eq_spec(&self, o: &Addr) -> bool { self.s@ == o.s@ } }
impl<'a> PartialEq<Addr> for &'a Addr { #[verifier::external_body] fn eq(&self, o: &Addr) -> (r: bool) ensures r == (self.s@ == o.s@) { unimplemented!() } }
impl<'a> PartialEq<&'a Addr> for Addr { #[verifier::external_body] fn eq(&self, o: &&'a Addr) -> (r: bool) ensures r == (self.s@ == o.s@) { unimplemented!() } }
impl PartialEq<Addr> for String { #[verifier::external_body] fn eq(&self, o: &Addr) -> (r: bool) ensures r == (self@ == o.s@) { unimplemented!() } }
impl PartialEq<String> for Addr { #[verifier::external_body] fn eq(&self, o: &String) -> (r: bool) ensures r == (self.s@ == o@) { unimplemented!() } }
impl PartialEq for Addr { #[verifier::external_body] fn eq(&self, o: &Addr) -> (r: bool) ensures r == (self.s@ == o.s@) { unimplemented!() } }
impl Eq for Addr {}
impl Addr {
    #[verifier::external_body] pub fn unchecked<S: StrLike>(s: S) -> (r: Addr) ensures r.s@ == s.str_view() { unimplemented!() }
    #[verifier::external_body] pub fn into_string(self) -> (r: String) ensures r == self.s { unimplemented!() }
    #[verifier::external_body] pub fn to_string(&self) -> (r: String) ensures r == self.s { unimplemented!() }
    #[verifier::external_body] pub fn as_str(&self) -> (r: &str) ensures r@ == self.s@ { unimplemented!() }
}
#[verifier::external_body] pub struct CanonicalAddr { _b: u8 }
impl Clone for CanonicalAddr { #[verifier::external_body] fn clone(&self) -> (r: Self) ensures r == *self { unimplemented!() } }
impl PartialEqSpecImpl for CanonicalAddr { open spec fn obeys_eq_spec() -> bool { true } open spec fn eq_spec(&self, o: &CanonicalAddr) -> bool { *self == *o } }
impl PartialEq for CanonicalAddr { #[verifier::external_body] fn eq(&self, o: &CanonicalAddr) -> (r: bool) ensures r == (*self == *o) { unimplemented!() } }
/// canonical (binary) form of a human-readable address (uninterpreted)
pub uninterp spec fn canonical(s: Seq<char>) -> CanonicalAddr;
pub trait StrLike { spec fn str_view(&self) -> Seq<char>; }
impl StrLike for String { open spec fn str_view(&self) -> Seq<char> { self@ } }
impl StrLike for &String { open spec fn str_view(&self) -> Seq<char> { (**self)@ } }
impl StrLike for &str { open spec fn str_view(&self) -> Seq<char> { (*self)@ } }
impl StrLike for Addr { open spec fn str_view(&self) -> Seq<char> { self.s@ } }
impl StrLike for &Addr { open spec fn str_view(&self) -> Seq<char> { self.s@ } }
impl From<Addr> for String { #[verifier::external_body] fn from(a: Addr) -> (r: String) { unimplemented!() } }
pub uninterp spec fn mk_string(s: Seq<char>) -> String;
pub broadcast axiom fn ax_mk_string(s: Seq<char>) ensures #[trigger] mk_string(s)@ == s;
/// D8 target: `x.into()` for `x: impl Into<String>` (String, &str, Addr): the same characters
#[verifier::external_body] pub fn verif_into_string<T: Into<String> + StrLike>(t: T) -> (r: String) ensures r@ == t.str_view() { unimplemented!() }
#[verifier::external_body] pub fn str_to_string(s: &str) -> (r: String) ensures r@ == s@ { unimplemented!() }

// ---------- serialisation ----------
pub uninterp spec fn ser<T>(v: T) -> Seq<u8>;
pub uninterp spec fn de<T>(b: Seq<u8>) -> T;
pub broadcast axiom fn ax_de_ser<T>(v: T) ensures #[trigger] de::<T>(ser::<T>(v)) == v;
pub uninterp spec fn enc_key<K>(k: K) -> Seq<u8>;
pub uninterp spec fn dec_key<K>(b: Seq<u8>) -> K;
pub broadcast axiom fn ax_dec_enc_key<K>(k: K) ensures #[trigger] dec_key::<K>(enc_key::<K>(k)) == k;

#[verifier::external_body]
pub struct Binary { _b: u8 }
pub uninterp spec fn binary_view(b: Binary) -> Seq<u8>;
pub uninterp spec fn mk_binary(b: Seq<u8>) -> Binary;
pub broadcast axiom fn ax_binary_mk(b: Seq<u8>) ensures #[trigger] binary_view(mk_binary(b)) == b;
pub broadcast axiom fn ax_binary_ext(a: Binary, b: Binary) requires #[trigger] binary_view(a) == #[trigger] binary_view(b) ensures a == b;
/// derived (proved from the two axioms above): mk_binary is the inverse of the view
pub broadcast proof fn lemma_binary_mk_view(b: Binary) ensures mk_binary(#[trigger] binary_view(b)) == b
{ ax_binary_mk(binary_view(b)); ax_binary_ext(mk_binary(binary_view(b)), b); }
impl View for Binary { type V = Seq<u8>; open spec fn view(&self) -> Seq<u8> { binary_view(*self) } }
impl Clone for Binary { #[verifier::external_body] fn clone(&self) -> (r: Self) ensures r == *self { unimplemented!() } }
/// assumed total for the message types used here (plain derive(Serialize) structs/enums)
#[verifier::external_body]
pub fn to_json_binary<T>(v: &T) -> (r: Result<Binary, StdError>) ensures r is Ok && r->Ok_0@ == ser::<T>(*v) { unimplemented!() }
pub trait BinLike { spec fn bin_view(&self) -> Seq<u8>; }
impl BinLike for Binary { open spec fn bin_view(&self) -> Seq<u8> { self@ } }
impl BinLike for &Binary { open spec fn bin_view(&self) -> Seq<u8> { (**self)@ } }
#[verifier::external_body]
pub fn from_json<T, B: BinLike>(b: B) -> (r: Result<T, StdError>) ensures r is Ok ==> r->Ok_0 == de::<T>(b.bin_view()), r is Ok <==> from_json_ok::<T>(b.bin_view()) { unimplemented!() }
/// whether the bytes parse as a T (uninterpreted; deterministic)
pub uninterp spec fn from_json_ok<T>(b: Seq<u8>) -> bool;

pub enum OverflowOperation { Add, Sub, Mul, Pow, Shr, Shl }
impl OverflowError {
    #[verifier::external_body] pub fn new<A, B>(op: OverflowOperation, a: A, b: B) -> (r: OverflowError) { unimplemented!() }
}
// ---------- storage ----------
pub type KV = vstd::map::Map<(int, Seq<u8>), Seq<u8>>;
pub struct Storage { pub kv: Ghost<KV> }
pub struct Api { pub _a: u8 }
impl Api {
    /// Ok only for the identical (already normalised) string
    #[verifier::external_body]
    pub fn addr_validate(&self, s: &str) -> (r: Result<Addr, StdError>) ensures r is Ok ==> r->Ok_0.s@ == s@, r is Ok <==> addr_ok(s@) { unimplemented!() }
    #[verifier::external_body]
    pub fn addr_canonicalize(&self, s: &str) -> (r: Result<CanonicalAddr, StdError>) ensures r is Ok ==> r->Ok_0 == canonical(s@), r is Ok <==> addr_ok(s@) { unimplemented!() }
    #[verifier::external_body]
    pub fn addr_humanize(&self, c: &CanonicalAddr) -> (r: Result<Addr, StdError>) ensures r is Ok ==> r->Ok_0.s@ == humanize(*c) { unimplemented!() }
}
/// whether the chain accepts the string as an address (uninterpreted; deterministic)
pub uninterp spec fn addr_ok(s: Seq<char>) -> bool;
/// human-readable form of a canonical address (uninterpreted)
pub uninterp spec fn humanize(c: CanonicalAddr) -> Seq<char>;
pub struct Item<T> { pub ns: u64, pub _p: PhantomData<T> }
impl<T> Item<T> {
    pub open spec fn key(&self) -> (int, Seq<u8>) { (self.ns as int, Seq::<u8>::empty()) }
    pub open spec fn has(&self, s: &Storage) -> bool { s.kv@.contains_key(self.key()) }
    pub open spec fn get(&self, s: &Storage) -> T { de::<T>(s.kv@[self.key()]) }
    #[verifier::external_body]
    pub fn load(&self, s: &Storage) -> (r: Result<T, StdError>)
        ensures self.has(s) ==> (r is Ok && r->Ok_0 == self.get(s)), !self.has(s) ==> r is Err { unimplemented!() }
    #[verifier::external_body]
    pub fn may_load(&self, s: &Storage) -> (r: Result<Option<T>, StdError>)
        ensures r is Ok, self.has(s) ==> r->Ok_0 == Some(self.get(s)), !self.has(s) ==> r->Ok_0 is None { unimplemented!() }
    #[verifier::external_body]
    pub fn save(&self, s: &mut Storage, v: &T) -> (r: Result<(), StdError>)
        ensures r is Ok, final(s).kv@ == old(s).kv@.insert(self.key(), ser::<T>(*v)) { unimplemented!() }
    #[verifier::external_body]
    pub fn remove(&self, s: &mut Storage)
        ensures final(s).kv@ == old(s).kv@.remove(self.key()) { unimplemented!() }
    #[verifier::external_body]
    pub fn exists(&self, s: &Storage) -> (r: bool) ensures r == self.has(s) { unimplemented!() }
    /// cw-storage-plus: load, apply, save the Ok value; on any Err nothing is written
    #[verifier::external_body]
    pub fn update<A: FnOnce(T) -> Result<T, E>, E: From<StdError>>(&self, s: &mut Storage, action: A) -> (r: Result<T, E>)
        requires self.has(old(s)) ==> action.requires((self.get(old(s)),))
        ensures match r {
            Ok(v) => self.has(old(s)) && action.ensures((self.get(old(s)),), Ok(v)) && final(s).kv@ == old(s).kv@.insert(self.key(), ser::<T>(v)),
            Err(e) => final(s).kv@ == old(s).kv@ && (self.has(old(s)) ==> action.ensures((self.get(old(s)),), Err(e))),
        } { unimplemented!() }
}
// ---- storage keys: injective byte encodings (cw-storage-plus PrimaryKey), compared by CONTENT (views) ----
pub uninterp spec fn enc_str(s: Seq<char>) -> Seq<u8>;
pub uninterp spec fn dec_str(b: Seq<u8>) -> Seq<char>;
pub broadcast axiom fn ax_enc_str(s: Seq<char>) ensures dec_str(#[trigger] enc_str(s)) == s;
pub uninterp spec fn enc_u64(n: u64) -> Seq<u8>;
pub uninterp spec fn dec_u64(b: Seq<u8>) -> u64;
pub broadcast axiom fn ax_enc_u64(n: u64) ensures dec_u64(#[trigger] enc_u64(n)) == n;
pub uninterp spec fn enc_pair(a: Seq<u8>, b: Seq<u8>) -> Seq<u8>;
pub uninterp spec fn pair_fst(p: Seq<u8>) -> Seq<u8>;
pub uninterp spec fn pair_snd(p: Seq<u8>) -> Seq<u8>;
pub broadcast axiom fn ax_enc_pair(a: Seq<u8>, b: Seq<u8>) ensures pair_fst(#[trigger] enc_pair(a, b)) == a, pair_snd(enc_pair(a, b)) == b;
pub trait KeyEnc: Sized { spec fn key_bytes(self) -> Seq<u8>; }
impl KeyEnc for &Addr { open spec fn key_bytes(self) -> Seq<u8> { enc_str(self.s@) } }
impl KeyEnc for Addr { open spec fn key_bytes(self) -> Seq<u8> { enc_str(self.s@) } }
impl KeyEnc for &str { open spec fn key_bytes(self) -> Seq<u8> { enc_str(self@) } }
impl KeyEnc for &String { open spec fn key_bytes(self) -> Seq<u8> { enc_str(self@) } }
impl KeyEnc for String { open spec fn key_bytes(self) -> Seq<u8> { enc_str(self@) } }
impl KeyEnc for &[u8] { open spec fn key_bytes(self) -> Seq<u8> { self@ } }
impl KeyEnc for u64 { open spec fn key_bytes(self) -> Seq<u8> { enc_u64(self) } }
impl KeyEnc for u32 { open spec fn key_bytes(self) -> Seq<u8> { enc_u64(self as u64) } }
impl<A: KeyEnc, B: KeyEnc> KeyEnc for (A, B) { open spec fn key_bytes(self) -> Seq<u8> { enc_pair(self.0.key_bytes(), self.1.key_bytes()) } }
impl<A: KeyEnc, B: KeyEnc, C: KeyEnc> KeyEnc for (A, B, C) { open spec fn key_bytes(self) -> Seq<u8> { enc_pair(enc_pair(self.0.key_bytes(), self.1.key_bytes()), self.2.key_bytes()) } }

pub struct Map<K, T> { pub ns: u64, pub _p: PhantomData<(K, T)> }
/// a fully specified key of a Map (cw-storage-plus `Path`)
pub struct Path<T> { pub ns: u64, pub kb: Ghost<Seq<u8>>, pub _p: PhantomData<T> }
impl<T> Path<T> {
    pub open spec fn key(&self) -> (int, Seq<u8>) { (self.ns as int, self.kb@) }
    pub open spec fn has(&self, s: &Storage) -> bool { s.kv@.contains_key(self.key()) }
    pub open spec fn get(&self, s: &Storage) -> T { de::<T>(s.kv@[self.key()]) }
    #[verifier::external_body]
    pub fn load(&self, s: &Storage) -> (r: Result<T, StdError>)
        ensures self.has(s) ==> (r is Ok && r->Ok_0 == self.get(s)), !self.has(s) ==> r is Err { unimplemented!() }
    #[verifier::external_body]
    pub fn may_load(&self, s: &Storage) -> (r: Result<Option<T>, StdError>)
        ensures r is Ok, self.has(s) ==> r->Ok_0 == Some(self.get(s)), !self.has(s) ==> r->Ok_0 is None { unimplemented!() }
    #[verifier::external_body]
    pub fn save(&self, s: &mut Storage, v: &T) -> (r: Result<(), StdError>)
        ensures r is Ok, final(s).kv@ == old(s).kv@.insert(self.key(), ser::<T>(*v)) { unimplemented!() }
    #[verifier::external_body]
    pub fn remove(&self, s: &mut Storage)
        ensures final(s).kv@ == old(s).kv@.remove(self.key()) { unimplemented!() }
    /// R13 target: the real `has`
    #[verifier::external_body]
    pub fn has_exec(&self, s: &Storage) -> (r: bool) ensures r == self.has(s) { unimplemented!() }
}
impl<K: KeyEnc, T> Map<K, T> {
    pub open spec fn skey(&self, k: K) -> (int, Seq<u8>) { (self.ns as int, k.key_bytes()) }
    pub open spec fn has(&self, s: &Storage, k: K) -> bool { s.kv@.contains_key(self.skey(k)) }
    pub open spec fn get(&self, s: &Storage, k: K) -> T { de::<T>(s.kv@[self.skey(k)]) }
    #[verifier::external_body]
    pub fn key(&self, k: K) -> (r: Path<T>) ensures r.ns == self.ns, r.kb@ == k.key_bytes() { unimplemented!() }
    #[verifier::external_body]
    pub fn load(&self, s: &Storage, k: K) -> (r: Result<T, StdError>)
        ensures self.has(s, k) ==> (r is Ok && r->Ok_0 == self.get(s, k)), !self.has(s, k) ==> r is Err { unimplemented!() }
    #[verifier::external_body]
    pub fn may_load(&self, s: &Storage, k: K) -> (r: Result<Option<T>, StdError>)
        ensures r is Ok, self.has(s, k) ==> r->Ok_0 == Some(self.get(s, k)), !self.has(s, k) ==> r->Ok_0 is None { unimplemented!() }
    #[verifier::external_body]
    pub fn save(&self, s: &mut Storage, k: K, v: &T) -> (r: Result<(), StdError>)
        ensures r is Ok, final(s).kv@ == old(s).kv@.insert(self.skey(k), ser::<T>(*v)) { unimplemented!() }
    #[verifier::external_body]
    pub fn remove(&self, s: &mut Storage, k: K)
        ensures final(s).kv@ == old(s).kv@.remove(self.skey(k)) { unimplemented!() }
    #[verifier::external_body]
    pub fn has_key(&self, s: &Storage, k: K) -> (r: bool) ensures r == self.has(s, k) { unimplemented!() }
    /// R13 target: the real `has`
    #[verifier::external_body]
    pub fn has_exec(&self, s: &Storage, k: K) -> (r: bool) ensures r == self.has(s, k) { unimplemented!() }
    pub open spec fn may_get(&self, s: &Storage, k: K) -> Option<T> { if self.has(s, k) { Some(self.get(s, k)) } else { None } }
    /// cw-storage-plus Map::update: may_load, apply, save the Ok value; on Err nothing is written
    #[verifier::external_body]
    pub fn update<A: FnOnce(Option<T>) -> Result<T, E>, E: From<StdError>>(&self, s: &mut Storage, k: K, action: A) -> (r: Result<T, E>)
        requires action.requires((self.may_get(&*old(s), k),))
        ensures match r {
            Ok(v) => action.ensures((self.may_get(&*old(s), k),), Ok(v)) && final(s).kv@ == old(s).kv@.insert(self.skey(k), ser::<T>(v)),
            Err(e) => final(s).kv@ == old(s).kv@ && action.ensures((self.may_get(&*old(s), k),), Err(e)),
        } { unimplemented!() }
}

// ---- prefix iteration (ASSUMED model of `map.prefix((a, b)).range(store, None, None, Order::Ascending)`) ----
/// all entries stored under the 2-component prefix `pb` of a map whose third key component is a u64,
/// in ascending order of that component (cw-storage-plus encodes u64 big-endian, so byte order == numeric order)
pub uninterp spec fn prefix_entries_u64<T>(kv: KV, ns: int, pb: Seq<u8>) -> Seq<(u64, T)>;
pub broadcast axiom fn ax_prefix_entries_sound<T>(kv: KV, ns: int, pb: Seq<u8>, i: int)
    requires 0 <= i < prefix_entries_u64::<T>(kv, ns, pb).len()
    ensures kv.contains_key((ns, enc_pair(pb, enc_u64((#[trigger] prefix_entries_u64::<T>(kv, ns, pb)[i]).0)))),
            de::<T>(kv[(ns, enc_pair(pb, enc_u64(prefix_entries_u64::<T>(kv, ns, pb)[i].0)))]) == prefix_entries_u64::<T>(kv, ns, pb)[i].1;
pub broadcast axiom fn ax_prefix_entries_sorted<T>(kv: KV, ns: int, pb: Seq<u8>, i: int, j: int)
    requires 0 <= i < j < prefix_entries_u64::<T>(kv, ns, pb).len()
    ensures (#[trigger] prefix_entries_u64::<T>(kv, ns, pb)[i]).0 < (#[trigger] prefix_entries_u64::<T>(kv, ns, pb)[j]).0;
pub axiom fn ax_prefix_entries_complete<T>(kv: KV, ns: int, pb: Seq<u8>, ts: u64)
    requires kv.contains_key((ns, enc_pair(pb, enc_u64(ts))))
    ensures exists|i: int| 0 <= i < prefix_entries_u64::<T>(kv, ns, pb).len() && (#[trigger] prefix_entries_u64::<T>(kv, ns, pb)[i]).0 == ts;
pub enum Order { Ascending, Descending }
/// D10 target: `MAP.prefix((a, b)).range(store, None, None, Order::Ascending).take(limit).collect::<StdResult<Vec<(u64, T)>>>()`
#[verifier::external_body]
pub fn verif_prefix_range_asc<A: KeyEnc, B: KeyEnc, T>(m: &Map<(A, B, u64), T>, s: &Storage, p: (A, B), limit: usize) -> (r: Result<Vec<(u64, T)>, StdError>)
    ensures r is Ok ==> ({
        let all = prefix_entries_u64::<T>(s.kv@, m.ns as int, enc_pair(p.0.key_bytes(), p.1.key_bytes()));
        r->Ok_0@ =~= all.take(if all.len() <= limit { all.len() as int } else { limit as int })
    }) { unimplemented!() }
/// D10 target, one-component prefix: `MAP.prefix(a).range(store, None, None, Order::Ascending).take(limit).collect::<StdResult<Vec<(u64, T)>>>()`
/// over a map keyed `(A, u64)` (same ASSUMED prefix-iteration model: the entries under the prefix in ascending order of the u64 component)
#[verifier::external_body]
pub fn verif_prefix1_range_asc_u64<A: KeyEnc, T>(m: &Map<(A, u64), T>, s: &Storage, p: A, limit: usize) -> (r: Result<Vec<(u64, T)>, StdError>)
    ensures r is Ok ==> ({
        let all = prefix_entries_u64::<T>(s.kv@, m.ns as int, p.key_bytes());
        r->Ok_0@ =~= all.take(if all.len() <= limit { all.len() as int } else { limit as int })
    }) { unimplemented!() }
// cw2: contract version item (namespace "contract_info"; id = the extractor's R5 hash of that literal)
pub spec const CW2_NS: int = 246209684066071int;
pub uninterp spec fn cw2_bytes(name: Seq<char>, version: Seq<char>) -> Seq<u8>;
#[verifier::external_body]
pub fn set_contract_version<A: StrLike, B: StrLike>(s: &mut Storage, name: A, version: B) -> (r: Result<(), StdError>)
    ensures r is Ok, final(s).kv@ == old(s).kv@.insert((CW2_NS, Seq::<u8>::empty()), cw2_bytes(name.str_view(), version.str_view())) { unimplemented!() }
// ---------- environment ----------
pub struct Timestamp { pub nanos: u64 }
impl Clone for Timestamp { #[verifier::external_body] fn clone(&self) -> (r: Self) ensures r == *self { unimplemented!() } }
impl Copy for Timestamp {}
impl PartialEqSpecImpl for Timestamp { open spec fn obeys_eq_spec() -> bool { true } open spec fn eq_spec(&self, o: &Timestamp) -> bool { self.nanos == o.nanos } }
impl PartialEq for Timestamp { #[verifier::external_body] fn eq(&self, o: &Timestamp) -> (r: bool) ensures r == (self.nanos == o.nanos) { unimplemented!() } }
impl PartialOrdSpecImpl for Timestamp {
    open spec fn obeys_partial_cmp_spec() -> bool { true }
    open spec fn partial_cmp_spec(&self, o: &Timestamp) -> Option<Ordering> {
        if self.nanos < o.nanos { Some(Ordering::Less) } else if self.nanos == o.nanos { Some(Ordering::Equal) } else { Some(Ordering::Greater) }
    }
}
impl PartialOrd for Timestamp {
    #[verifier::external_body] fn partial_cmp(&self, o: &Timestamp) -> (r: Option<Ordering>) { unimplemented!() }
    #[verifier::external_body] fn lt(&self, o: &Timestamp) -> (r: bool) ensures r == (self.nanos < o.nanos) { unimplemented!() }
    #[verifier::external_body] fn le(&self, o: &Timestamp) -> (r: bool) ensures r == (self.nanos <= o.nanos) { unimplemented!() }
    #[verifier::external_body] fn gt(&self, o: &Timestamp) -> (r: bool) ensures r == (self.nanos > o.nanos) { unimplemented!() }
    #[verifier::external_body] fn ge(&self, o: &Timestamp) -> (r: bool) ensures r == (self.nanos >= o.nanos) { unimplemented!() }
}
impl Default for Timestamp { #[verifier::external_body] fn default() -> (r: Timestamp) ensures r.nanos == 0 { unimplemented!() } }
impl Timestamp {
    #[verifier::external_body] pub const fn from_nanos(n: u64) -> (r: Timestamp) ensures r.nanos == n { unimplemented!() }
    #[verifier::external_body] pub const fn from_seconds(n: u64) -> (r: Timestamp)
        requires n as nat * 1_000_000_000 <= u64::MAX ensures r.nanos == n * 1_000_000_000 { unimplemented!() }
    #[verifier::external_body] pub const fn nanos(&self) -> (r: u64) ensures r == self.nanos { unimplemented!() }
    #[verifier::external_body] pub const fn seconds(&self) -> (r: u64) ensures r == self.nanos / 1_000_000_000 { unimplemented!() }
    #[verifier::external_body] pub const fn plus_nanos(&self, n: u64) -> (r: Timestamp)
        requires self.nanos + n <= u64::MAX ensures r.nanos == self.nanos + n { unimplemented!() }
    #[verifier::external_body] pub const fn plus_seconds(&self, n: u64) -> (r: Timestamp)
        requires self.nanos as nat + n as nat * 1_000_000_000 <= u64::MAX ensures r.nanos == self.nanos + n * 1_000_000_000 { unimplemented!() }
    /// panics on underflow. The panic is modelled as NON-RETURN (partial correctness): whatever follows the call knows that the subtraction did
    /// not underflow, so a clause "too early ==> rejected" holds of the real code because it never returns there - and fails for a variant that
    /// replaces the panicking subtraction by a saturating / absolute one and carries on
    #[verifier::external_body] pub const fn minus_nanos(&self, n: u64) -> (r: Timestamp)
        ensures self.nanos >= n, r.nanos == self.nanos - n { unimplemented!() }
    #[verifier::external_body] pub const fn minus_seconds(&self, n: u64) -> (r: Timestamp)
        requires self.nanos as nat >= n as nat * 1_000_000_000 ensures r.nanos == self.nanos - n * 1_000_000_000 { unimplemented!() }
}
pub struct BlockInfo { pub height: u64, pub time: Timestamp, pub chain_id: String }
pub struct ContractInfo { pub address: Addr }
pub struct Env { pub block: BlockInfo, pub contract: ContractInfo }
impl Clone for Env { #[verifier::external_body] fn clone(&self) -> (r: Self) ensures r == *self { unimplemented!() } }
pub struct Coin { pub denom: String, pub amount: Uint128 }
impl Clone for Coin { #[verifier::external_body] fn clone(&self) -> (r: Self) ensures r == *self { unimplemented!() } }
impl PartialEqSpecImpl for Coin { open spec fn obeys_eq_spec() -> bool { true } open spec fn eq_spec(&self, o: &Coin) -> bool { self.denom@ == o.denom@ && self.amount == o.amount } }
impl PartialEq for Coin { #[verifier::external_body] fn eq(&self, o: &Coin) -> (r: bool) ensures r == (self.denom@ == o.denom@ && self.amount == o.amount) { unimplemented!() } }
pub struct MessageInfo { pub sender: Addr, pub funds: Vec<Coin> }
impl Clone for MessageInfo { #[verifier::external_body] fn clone(&self) -> (r: Self) ensures r == *self { unimplemented!() } }
pub type CoinV = (Seq<char>, nat);
pub open spec fn coin_view(c: Coin) -> CoinV { (c.denom@, c.amount@) }
pub open spec fn coins_view(v: Seq<Coin>) -> Seq<CoinV> { v.map_values(|c: Coin| coin_view(c)) }
#[verifier::external_body]
pub fn coins<D: StrLike>(amount: u128, denom: D) -> (r: Vec<Coin>)
    ensures r@.len() == 1, r@[0].amount.v == amount, r@[0].denom@ == denom.str_view(),
            coins_view(r@) == seq![(denom.str_view(), amount as nat)] { unimplemented!() }
#[verifier::external_body]
pub fn coin<D: StrLike>(amount: u128, denom: D) -> (r: Coin)
    ensures r.amount.v == amount, r.denom@ == denom.str_view() { unimplemented!() }
/// sum of the coins of `denom` in `funds` (Uint128 `Sum` aborts on overflow)
pub open spec fn funds_of(funds: Seq<Coin>, denom: Seq<char>) -> nat decreases funds.len() {
    if funds.len() == 0 { 0 } else {
        funds_of(funds.drop_last(), denom) + (if funds.last().denom@ == denom { funds.last().amount@ } else { 0 })
    }
}

/// D5 target: `funds.iter().filter(|c| c.denom == denom).map(|c| c.amount).sum::<Uint128>()`
/// (Uint128's Sum folds with `+`, which aborts on overflow)
#[verifier::external_body]
pub fn verif_sum_funds(funds: &Vec<Coin>, denom: &String) -> (r: Uint128)
    requires funds_of(funds@, denom@) < POW128
    ensures r@ == funds_of(funds@, denom@) { unimplemented!() }
/// D5 target: `funds.iter().map(|c| c.amount).sum::<Uint128>()` — the amounts of ALL coins, whatever their denom
pub open spec fn funds_total(funds: Seq<Coin>) -> nat decreases funds.len() {
    if funds.len() == 0 { 0 } else { funds_total(funds.drop_last()) + funds.last().amount@ }
}
#[verifier::external_body]
pub fn verif_sum_all_funds(funds: &Vec<Coin>) -> (r: Uint128)
    requires funds_total(funds@) < POW128
    ensures r@ == funds_total(funds@) { unimplemented!() }
// ---------- querier ----------
pub struct QuerierWrapper { pub id: Ghost<int> }
impl Clone for QuerierWrapper { #[verifier::external_body] fn clone(&self) -> (r: Self) ensures r == *self { unimplemented!() } }
impl Copy for QuerierWrapper {}
/// answer of contract `addr` to the smart query with serialised message `msg` (a function of the chain state `q`)
pub uninterp spec fn smart_answer<T>(q: QuerierWrapper, addr: Seq<char>, msg: Seq<u8>) -> Result<T, StdError>;
/// result of the bank balance query (both query forms, QuerierWrapper::query_balance and the raw BankQuery::Balance, agree)
pub uninterp spec fn bank_answer(q: QuerierWrapper, addr: Seq<char>, denom: Seq<char>) -> Result<Coin, StdError>;
pub open spec fn bank_balance(q: QuerierWrapper, addr: Seq<char>, denom: Seq<char>) -> Uint128 {
    match bank_answer(q, addr, denom) { Ok(c) => c.amount, Err(_) => Uint128 { v: 0 } }
}
pub uninterp spec fn bank_supply(q: QuerierWrapper, denom: Seq<char>) -> Uint128;
pub struct ContractInfoResponse { pub code_id: u64, pub creator: String, pub admin: Option<String>, pub pinned: bool, pub ibc_port: Option<String> }
pub uninterp spec fn contract_info_answer(q: QuerierWrapper, addr: Seq<char>) -> Result<ContractInfoResponse, StdError>;
impl QuerierWrapper {
    #[verifier::external_body]
    pub fn query_balance<A: StrLike, B: StrLike>(&self, addr: A, denom: B) -> (r: Result<Coin, StdError>)
        ensures r == bank_answer(*self, addr.str_view(), denom.str_view()), r is Ok ==> r->Ok_0.denom@ == denom.str_view()
    { unimplemented!() }
    #[verifier::external_body]
    pub fn query_wasm_smart<T>(&self, addr: impl StrLike, msg: &impl Sized) -> (r: Result<T, StdError>)
        ensures r == smart_answer::<T>(*self, addr.str_view(), ser(*msg))
    { unimplemented!() }
    /// chain-level contract metadata (admin = the address allowed to migrate; None when there is none)
    #[verifier::external_body]
    pub fn query_wasm_contract_info<A: StrLike>(&self, addr: A) -> (r: Result<ContractInfoResponse, StdError>)
        ensures r == contract_info_answer(*self, addr.str_view())
    { unimplemented!() }
    #[verifier::external_body]
    pub fn query_supply<B: StrLike>(&self, denom: B) -> (r: Result<Coin, StdError>)
        ensures r is Ok ==> r->Ok_0.amount == bank_supply(*self, denom.str_view())
    { unimplemented!() }
}
// raw query requests (used by white-whale-std's querier helpers)
pub enum BankQuery { Balance { address: String, denom: String }, AllBalances { address: String }, Supply { denom: String } }
pub enum WasmQuery { Smart { contract_addr: String, msg: Binary }, Raw { contract_addr: String, key: Binary } }
pub enum QueryRequest { Bank(BankQuery), Wasm(WasmQuery) }
pub struct BankBalanceResponse { pub amount: Coin }
pub struct AllBalanceResponse { pub amount: Vec<Coin> }
pub uninterp spec fn raw_answer<T>(q: QuerierWrapper, req: QueryRequest) -> Result<T, StdError>;
pub broadcast axiom fn ax_raw_bank_balance(q: QuerierWrapper, address: String, denom: String)
    ensures (#[trigger] raw_answer::<BankBalanceResponse>(q, QueryRequest::Bank(BankQuery::Balance { address, denom }))) matches Ok(b)
        ==> bank_answer(q, address@, denom@) is Ok && b.amount.amount == bank_answer(q, address@, denom@)->Ok_0.amount;
pub broadcast axiom fn ax_raw_smart<T>(q: QuerierWrapper, contract_addr: String, msg: Binary)
    ensures #[trigger] raw_answer::<T>(q, QueryRequest::Wasm(WasmQuery::Smart { contract_addr, msg })) == smart_answer::<T>(q, contract_addr@, msg@);
impl QuerierWrapper {
    #[verifier::external_body]
    pub fn query<T>(&self, req: &QueryRequest) -> (r: Result<T, StdError>) ensures r == raw_answer::<T>(*self, *req) { unimplemented!() }
}
pub struct Deps<'a> { pub storage: &'a Storage, pub api: &'a Api, pub querier: QuerierWrapper }
impl<'a> Clone for Deps<'a> { #[verifier::external_body] fn clone(&self) -> (r: Self) ensures r == *self { unimplemented!() } }
impl<'a> Copy for Deps<'a> {}
pub struct DepsMut<'a> { pub storage: &'a mut Storage, pub api: &'a Api, pub querier: QuerierWrapper }
impl<'a> DepsMut<'a> {
    #[verifier::external_body]
    pub fn as_ref(&self) -> (r: Deps<'_>) ensures *r.storage == *old(self.storage), r.querier == self.querier { unimplemented!() }
}

// ---------- cw20 ----------
pub enum Cw20QueryMsg {
    Balance { address: String },
    TokenInfo {},
    Allowance { owner: String, spender: String },
    Minter {},
}
pub struct BalanceResponse { pub balance: Uint128 }
pub struct AllowanceResponse { pub allowance: Uint128, pub expires: u8 }
pub struct TokenInfoResponse { pub name: String, pub symbol: String, pub decimals: u8, pub total_supply: Uint128 }
pub enum Cw20ExecuteMsg {
    Transfer { recipient: String, amount: Uint128 },
    Burn { amount: Uint128 },
    Send { contract: String, amount: Uint128, msg: Binary },
    IncreaseAllowance { spender: String, amount: Uint128, expires: Option<u8> },
    DecreaseAllowance { spender: String, amount: Uint128, expires: Option<u8> },
    TransferFrom { owner: String, recipient: String, amount: Uint128 },
    SendFrom { owner: String, contract: String, amount: Uint128, msg: Binary },
    BurnFrom { owner: String, amount: Uint128 },
    Mint { recipient: String, amount: Uint128 },
}
pub struct Cw20ReceiveMsg { pub sender: String, pub amount: Uint128, pub msg: Binary }
pub open spec fn cw20_balance(q: QuerierWrapper, token: Seq<char>, addr: String) -> Result<BalanceResponse, StdError> {
    smart_answer::<BalanceResponse>(q, token, ser(Cw20QueryMsg::Balance { address: addr }))
}
pub open spec fn cw20_token_info(q: QuerierWrapper, token: Seq<char>) -> Result<TokenInfoResponse, StdError> {
    smart_answer::<TokenInfoResponse>(q, token, ser(Cw20QueryMsg::TokenInfo {}))
}
pub open spec fn cw20_allowance(q: QuerierWrapper, token: Seq<char>, owner: String, spender: String) -> Result<AllowanceResponse, StdError> {
    smart_answer::<AllowanceResponse>(q, token, ser(Cw20QueryMsg::Allowance { owner, spender }))
}

// ---------- messages / response ----------
pub enum BankMsg { Send { to_address: String, amount: Vec<Coin> }, Burn { amount: Vec<Coin> } }
pub enum WasmMsg {
    Execute { contract_addr: String, msg: Binary, funds: Vec<Coin> },
    Instantiate { admin: Option<String>, code_id: u64, msg: Binary, funds: Vec<Coin>, label: String },
    Migrate { contract_addr: String, new_code_id: u64, msg: Binary },
}
pub enum CosmosMsg { Bank(BankMsg), Wasm(WasmMsg), Other(u8) }
impl Clone for CosmosMsg { #[verifier::external_body] fn clone(&self) -> (r: Self) ensures r == *self { unimplemented!() } }
impl FromSpecImpl<BankMsg> for CosmosMsg { open spec fn obeys_from_spec() -> bool { true } open spec fn from_spec(m: BankMsg) -> CosmosMsg { CosmosMsg::Bank(m) } }
impl From<BankMsg> for CosmosMsg { #[verifier::external_body] fn from(m: BankMsg) -> (r: CosmosMsg) { unimplemented!() } }
impl FromSpecImpl<WasmMsg> for CosmosMsg { open spec fn obeys_from_spec() -> bool { true } open spec fn from_spec(m: WasmMsg) -> CosmosMsg { CosmosMsg::Wasm(m) } }
impl From<WasmMsg> for CosmosMsg { #[verifier::external_body] fn from(m: WasmMsg) -> (r: CosmosMsg) { unimplemented!() } }
/// ghost view of a message (Vec / String / Binary fields replaced by their views)
pub enum MsgV {
    BankSend { to: Seq<char>, coins: Seq<CoinV> },
    BankBurn { coins: Seq<CoinV> },
    Execute { contract: Seq<char>, msg: Seq<u8>, funds: Seq<CoinV> },
    Instantiate { admin: Option<Seq<char>>, code_id: u64, msg: Seq<u8>, funds: Seq<CoinV>, label: Seq<char> },
    Migrate { contract: Seq<char>, new_code_id: u64, msg: Seq<u8> },
    Other,
}
pub open spec fn msg_view(m: CosmosMsg) -> MsgV {
    match m {
        CosmosMsg::Bank(BankMsg::Send { to_address, amount }) => MsgV::BankSend { to: to_address@, coins: coins_view(amount@) },
        CosmosMsg::Bank(BankMsg::Burn { amount }) => MsgV::BankBurn { coins: coins_view(amount@) },
        CosmosMsg::Wasm(WasmMsg::Execute { contract_addr, msg, funds }) => MsgV::Execute { contract: contract_addr@, msg: msg@, funds: coins_view(funds@) },
        CosmosMsg::Wasm(WasmMsg::Instantiate { admin, code_id, msg, funds, label }) =>
            MsgV::Instantiate { admin: match admin { Some(a) => Some(a@), None => None }, code_id, msg: msg@, funds: coins_view(funds@), label: label@ },
        CosmosMsg::Wasm(WasmMsg::Migrate { contract_addr, new_code_id, msg }) => MsgV::Migrate { contract: contract_addr@, new_code_id, msg: msg@ },
        CosmosMsg::Other(_) => MsgV::Other,
    }
}
pub open spec fn no_coins() -> Seq<CoinV> { Seq::<CoinV>::empty() }
pub broadcast proof fn lemma_coins_view_empty(v: Seq<Coin>) requires v.len() == 0 ensures #[trigger] coins_view(v) == no_coins()
{ assert(coins_view(v) =~= no_coins()); }
pub broadcast proof fn lemma_coins_view_one(v: Seq<Coin>) requires v.len() == 1 ensures #[trigger] coins_view(v) == seq![(v[0].denom@, v[0].amount@)]
{ assert(coins_view(v) =~= seq![(v[0].denom@, v[0].amount@)]); }
pub trait IntoCosmos { spec fn to_cosmos(self) -> CosmosMsg; }
impl IntoCosmos for CosmosMsg { open spec fn to_cosmos(self) -> CosmosMsg { self } }
impl IntoCosmos for BankMsg { open spec fn to_cosmos(self) -> CosmosMsg { CosmosMsg::Bank(self) } }
impl IntoCosmos for WasmMsg { open spec fn to_cosmos(self) -> CosmosMsg { CosmosMsg::Wasm(self) } }
pub enum ReplyOn { Always, Error, Success, Never }
pub struct SubMsg { pub id: u64, pub msg: CosmosMsg, pub gas_limit: Option<u64>, pub reply_on: ReplyOn }
impl SubMsg {
    #[verifier::external_body] pub fn new<M: IntoCosmos>(m: M) -> (r: SubMsg)
        ensures r.msg == m.to_cosmos(), r.reply_on is Never, r.id == 0, r.gas_limit is None { unimplemented!() }
    #[verifier::external_body] pub fn reply_on_success<M: IntoCosmos>(m: M, id: u64) -> (r: SubMsg)
        ensures r.msg == m.to_cosmos(), r.reply_on is Success, r.id == id, r.gas_limit is None { unimplemented!() }
    #[verifier::external_body] pub fn reply_on_error<M: IntoCosmos>(m: M, id: u64) -> (r: SubMsg)
        ensures r.msg == m.to_cosmos(), r.reply_on is Error, r.id == id, r.gas_limit is None { unimplemented!() }
    #[verifier::external_body] pub fn reply_always<M: IntoCosmos>(m: M, id: u64) -> (r: SubMsg)
        ensures r.msg == m.to_cosmos(), r.reply_on is Always, r.id == id, r.gas_limit is None { unimplemented!() }
}
pub open spec fn plain_sub(m: CosmosMsg) -> SubMsg { SubMsg { id: 0, msg: m, gas_limit: None, reply_on: ReplyOn::Never } }
/// what `Response::add_messages` accepts: a list of anything that converts into a CosmosMsg (each becomes a plain sub-message)
pub trait MsgList: Sized { spec fn subs(self) -> Seq<SubMsg>; }
impl MsgList for Vec<CosmosMsg> { open spec fn subs(self) -> Seq<SubMsg> { self@.map_values(|m: CosmosMsg| plain_sub(m)) } }
impl MsgList for Vec<WasmMsg> { open spec fn subs(self) -> Seq<SubMsg> { self@.map_values(|m: WasmMsg| plain_sub(CosmosMsg::Wasm(m))) } }
pub struct Response { pub messages: Vec<SubMsg>, pub data: Option<Binary> }
impl Response {
    /// the messages of the response, in order
    pub open spec fn msgs(&self) -> Seq<CosmosMsg> { self.messages@.map_values(|s: SubMsg| s.msg) }
    /// ghost views of the messages, in order
    pub open spec fn msgv(&self) -> Seq<MsgV> { self.messages@.map_values(|s: SubMsg| msg_view(s.msg)) }
    #[verifier::external_body] pub fn new() -> (r: Response) ensures r.messages@ == Seq::<SubMsg>::empty(), r.data is None { unimplemented!() }
    #[verifier::external_body] pub fn default() -> (r: Response) ensures r.messages@ == Seq::<SubMsg>::empty(), r.data is None { unimplemented!() }
    #[verifier::external_body] pub fn add_message<M: IntoCosmos>(self, m: M) -> (r: Response)
        ensures r.messages@ == self.messages@.push(plain_sub(m.to_cosmos())), r.data == self.data { unimplemented!() }
    #[verifier::external_body] pub fn add_messages<L: MsgList>(self, ms: L) -> (r: Response)
        ensures r.messages@ == self.messages@ + ms.subs(), r.data == self.data { unimplemented!() }
    #[verifier::external_body] pub fn add_submessage(self, m: SubMsg) -> (r: Response)
        ensures r.messages@ == self.messages@.push(m), r.data == self.data { unimplemented!() }
    #[verifier::external_body] pub fn add_submessages(self, ms: Vec<SubMsg>) -> (r: Response)
        ensures r.messages@ == self.messages@ + ms@, r.data == self.data { unimplemented!() }
    #[verifier::external_body] pub fn set_data(self, d: Binary) -> (r: Response)
        ensures r.messages@ == self.messages@, r.data == Some(d) { unimplemented!() }
}
pub broadcast group group_cw_axioms { ax_string_ext, ax_mk_string, ax_de_ser, ax_dec_enc_key, ax_enc_str, ax_enc_u64, ax_enc_pair, ax_prefix_entries_sound, ax_prefix_entries_sorted, ax_binary_mk, ax_binary_ext, lemma_binary_mk_view, ax_raw_bank_balance, ax_raw_smart, lemma_coins_view_empty, lemma_coins_view_one, ax_to_string_string, vstd::string::to_string_from_display_ensures_for_str }
//@broadcast group_cw_axioms
