// ---- 1-component prefix iteration over a map keyed by (A, &str): `MAP.prefix(a).range(store, None, None, Ascending)` (ASSUMED model) ----
/// all entries stored under the first key component `pa`: (second component as a string, value), in the storage's iteration order
pub uninterp spec fn prefix1_entries<T>(kv: KV, ns: int, pa: Seq<u8>) -> Seq<(Seq<char>, T)>;
pub broadcast axiom fn ax_prefix1_sound<T>(kv: KV, ns: int, pa: Seq<u8>, i: int)
    requires 0 <= i < prefix1_entries::<T>(kv, ns, pa).len()
    ensures kv.contains_key((ns, enc_pair(pa, enc_str((#[trigger] prefix1_entries::<T>(kv, ns, pa)[i]).0)))),
            de::<T>(kv[(ns, enc_pair(pa, enc_str(prefix1_entries::<T>(kv, ns, pa)[i].0)))]) == prefix1_entries::<T>(kv, ns, pa)[i].1;
pub broadcast axiom fn ax_prefix1_distinct<T>(kv: KV, ns: int, pa: Seq<u8>, i: int, j: int)
    requires 0 <= i < j < prefix1_entries::<T>(kv, ns, pa).len()
    ensures (#[trigger] prefix1_entries::<T>(kv, ns, pa)[i]).0 != (#[trigger] prefix1_entries::<T>(kv, ns, pa)[j]).0;
pub axiom fn ax_prefix1_complete<T>(kv: KV, ns: int, pa: Seq<u8>, k: Seq<char>)
    requires kv.contains_key((ns, enc_pair(pa, enc_str(k))))
    ensures exists|i: int| 0 <= i < prefix1_entries::<T>(kv, ns, pa).len() && (#[trigger] prefix1_entries::<T>(kv, ns, pa)[i]).0 == k;
pub open spec fn first_k<T>(s: Seq<T>, n: int) -> Seq<T> { if s.len() <= n { s } else if n <= 0 { Seq::empty() } else { s.take(n) } }
/// D22 target (1-component prefix, no lower bound): the items `MAP.prefix(a).range(store, None, None, Order::Ascending).take(limit)` yields
#[verifier::external_body]
pub fn verif_prefix1_range<A: KeyEnc, T>(m: &Map<(A, &'static str), T>, s: &Storage, p: A, limit: usize) -> (r: Vec<Result<(String, T), StdError>>)
    ensures ({
        let es = first_k(prefix1_entries::<T>(s.kv@, m.ns as int, p.key_bytes()), limit as int);
        &&& r@.len() == es.len()
        &&& forall|i: int| 0 <= i < es.len() ==> (#[trigger] r@[i]) is Ok && r@[i]->Ok_0.0@ == es[i].0 && r@[i]->Ok_0.1 == es[i].1
    }) { unimplemented!() }
/// D10 target (no closure): `MAP.prefix(a).range(store, None, None, Order::Ascending).take(limit).collect::<StdResult<Vec<_>>>()`
#[verifier::external_body]
pub fn verif_prefix1_collect<A: KeyEnc, T>(m: &Map<(A, &'static str), T>, s: &Storage, p: A, limit: usize) -> (r: Result<Vec<(String, T)>, StdError>)
    ensures r is Ok ==> ({
        let es = first_k(prefix1_entries::<T>(s.kv@, m.ns as int, p.key_bytes()), limit as int);
        &&& r->Ok_0@.len() == es.len()
        &&& forall|i: int| 0 <= i < es.len() ==> (#[trigger] r->Ok_0@[i]).0@ == es[i].0 && r->Ok_0@[i].1 == es[i].1
    }) { unimplemented!() }
