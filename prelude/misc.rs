// ---- small std / third-party gaps (trusted) ----
pub struct Version { pub _o: u8 }   // semver::Version, opaque
/// only powers of ten are used by the code under contract; 10^38 < 2^128 <= 10^39
pub assume_specification [u128::pow] (base: u128, e: u32) -> (r: u128)
    requires base == 10, e <= 38
    ensures r == p10(e as nat);
/// arbitrary value standing for the dropped tail of an M3 guard-prefix slice
#[verifier::external_body]
pub fn verif_havoc<T>() -> (r: T) { unimplemented!() }
