// ---- small std / third-party gaps (trusted) ----
#[derive(Debug)] pub struct Version { pub _o: u8 }   // semver::Version, opaque
/// only powers of ten are used by the code under contract; 10^38 < 2^128 <= 10^39
pub assume_specification [u128::pow] (base: u128, e: u32) -> (r: u128)
    requires base == 10, e <= 38
    ensures r == p10(e as nat);
/// arbitrary value standing for the dropped tail of an M3 guard-prefix slice
#[verifier::external_body]
pub fn verif_havoc<T>() -> (r: T) { unimplemented!() }
/// Decimal::from_str for the two literals the code under contract uses; any other literal is unspecified
/// (a changed constant therefore fails the dependent postconditions instead of being silently accepted).
impl FromStr for Decimal {
    type Err = StdError;
    #[verifier::external_body]
    fn from_str(s: &str) -> (r: Result<Decimal, StdError>)
        ensures
            s@ == ("0.01")@ ==> r is Ok && r->Ok_0@ == 10_000_000_000_000_000nat,
            s@ == ("0.5")@ ==> r is Ok && r->Ok_0@ == 500_000_000_000_000_000nat,
    { unimplemented!() }
}
#[derive(Debug)] pub struct PaymentError { pub _o: u8 }   // cw_utils::PaymentError, opaque
// num_traits::ToPrimitive for the native conversions used by the 3pool curve
pub trait ToPrimitive: Sized {
    spec fn prim_val(&self) -> nat;
    fn to_u128(&self) -> (r: Option<u128>) ensures self.prim_val() <= u128::MAX ==> r == Some(self.prim_val() as u128), self.prim_val() > u128::MAX ==> r is None;
    fn to_u64(&self) -> (r: Option<u64>) ensures self.prim_val() <= u64::MAX ==> r == Some(self.prim_val() as u64), self.prim_val() > u64::MAX ==> r is None;
}
impl ToPrimitive for u64 {
    open spec fn prim_val(&self) -> nat { *self as nat }
    #[verifier::external_body] fn to_u128(&self) -> (r: Option<u128>) { unimplemented!() }
    #[verifier::external_body] fn to_u64(&self) -> (r: Option<u64>) { unimplemented!() }
}
impl ToPrimitive for u128 {
    open spec fn prim_val(&self) -> nat { *self as nat }
    #[verifier::external_body] fn to_u128(&self) -> (r: Option<u128>) { unimplemented!() }
    #[verifier::external_body] fn to_u64(&self) -> (r: Option<u64>) { unimplemented!() }
}
pub assume_specification<T, U, F: FnOnce(T) -> U> [Option::<T>::map_or] (o: Option<T>, default: U, f: F) -> (r: U)
    requires o is Some ==> f.requires((o->Some_0,))
    ensures o is None ==> r == default, o is Some ==> f.ensures((o->Some_0,), r);
/// Option::filter (std documentation): Some(v) stays only if the predicate returns true on &v
pub assume_specification<T, F: FnOnce(&T) -> bool> [Option::<T>::filter] (o: Option<T>, f: F) -> (r: Option<T>)
    requires o is Some ==> f.requires((&o->Some_0,))
    ensures o is None ==> r is None,
        o is Some ==> (r is None || r == o) && (r is Some ==> f.ensures((&o->Some_0,), true)) && (r is None ==> f.ensures((&o->Some_0,), false));
/// R14 target: the value of a `format!(..)` (an arbitrary string: error texts and labels carry no contract)
#[verifier::external_body] pub fn verif_format() -> (r: String) { unimplemented!() }
/// `slice.to_vec()`: element-wise clone; ASSUMED to return equal elements (every element type used here derives Clone or is String)
pub assume_specification<T: Clone> [<[T]>::to_vec] (s: &[T]) -> (r: Vec<T>) ensures r@ == s@;
/// `to_owned` of a Clone type is its clone
pub assume_specification<T: Clone> [<T as std::borrow::ToOwned>::to_owned] (s: &T) -> (r: T) ensures vstd::pervasive::cloned::<T>(*s, r);
pub assume_specification<T, F: FnOnce(T) -> bool> [Option::<T>::is_some_and] (o: Option<T>, f: F) -> (r: bool)
    requires o is Some ==> f.requires((o->Some_0,))
    ensures o is None ==> !r, o is Some ==> f.ensures((o->Some_0,), r);
/// D2/D3 helper: the i-th element of a consumed Vec / array / slice (what `into_iter()` would move out)
#[verifier::external_body]
pub fn verif_elem<T>(v: &Vec<T>, i: usize) -> (r: T) requires i < v@.len() ensures r == v@[i as int] { unimplemented!() }
/// D2 helper: the same for any indexable source (Vec or array)
pub trait VerifSeq<T> {
    spec fn vseq(&self) -> Seq<T>;
    fn velem(&self, i: usize) -> (r: T) requires i < self.vseq().len() ensures r == self.vseq()[i as int];
}
impl<T> VerifSeq<T> for Vec<T> {
    open spec fn vseq(&self) -> Seq<T> { self@ }
    #[verifier::external_body] fn velem(&self, i: usize) -> (r: T) { unimplemented!() }
}
impl<T, const N: usize> VerifSeq<T> for [T; N] {
    open spec fn vseq(&self) -> Seq<T> { self@ }
    #[verifier::external_body] fn velem(&self, i: usize) -> (r: T) { unimplemented!() }
}
#[verifier::external_body]
pub fn verif_elem_arr<T, const N: usize>(v: &[T; N], i: usize) -> (r: T) requires i < N ensures r == v@[i as int] { unimplemented!() }
// ---- total order on Uint128 (derive(Ord) of the real type: the order of the integers) ----
impl OrdSpecImpl for Uint128 {
    open spec fn obeys_cmp_spec() -> bool { true }
    open spec fn cmp_spec(&self, o: &Uint128) -> core::cmp::Ordering {
        if self@ < o@ { core::cmp::Ordering::Less } else if self@ == o@ { core::cmp::Ordering::Equal } else { core::cmp::Ordering::Greater }
    }
}
impl Ord for Uint128 { #[verifier::external_body] fn cmp(&self, o: &Uint128) -> (r: core::cmp::Ordering) { unimplemented!() } }
// ---- `uint` crate U256 as used for the first-deposit share (ASSUMED model: a natural number below 2^256) ----
#[verifier::external_body] pub struct U256 { _w: u8 }
pub uninterp spec fn u256_view(x: U256) -> nat;
impl View for U256 { type V = nat; open spec fn view(&self) -> nat { u256_view(*self) } }
impl From<u128> for U256 { #[verifier::external_body] fn from(x: u128) -> (r: U256) ensures r@ == x as nat { unimplemented!() } }
impl U256 {
    #[verifier::external_body] pub fn checked_mul(self, o: U256) -> (r: Option<U256>)
        ensures self@ * o@ < pow256() ==> r is Some && r->Some_0@ == self@ * o@, self@ * o@ >= pow256() ==> r is None { unimplemented!() }
    /// floor square root
    #[verifier::external_body] pub fn integer_sqrt(&self) -> (r: U256) ensures r@ * r@ <= self@, self@ < (r@ + 1) * (r@ + 1),
        self@ < pow256() ==> r@ < POW128 /* consequence of r*r <= self */ { unimplemented!() }
    /// panics when the value does not fit
    #[verifier::external_body] pub fn as_u128(&self) -> (r: u128) requires self@ < POW128 ensures r as nat == self@ { unimplemented!() }
}
/// D18 target: `std::cmp::min(a, b)` on Uint128
#[verifier::external_body] pub fn verif_min_u128(a: Uint128, b: Uint128) -> (r: Uint128) ensures r@ == (if a@ <= b@ { a@ } else { b@ }) { unimplemented!() }
// ---- std collections used as record fields (ASSUMED model: a finite map view) ----
#[verifier::external_body] #[verifier::accept_recursive_types(K)] #[verifier::accept_recursive_types(V)]
pub struct BTreeMap<K, V> { _k: core::marker::PhantomData<(K, V)> }
#[verifier::external_body] #[verifier::accept_recursive_types(K)] #[verifier::accept_recursive_types(V)]
pub struct HashMap<K, V> { _k: core::marker::PhantomData<(K, V)> }
pub uninterp spec fn btree_view<K, V>(m: BTreeMap<K, V>) -> vstd::map::Map<K, V>;
impl<K, V> Clone for BTreeMap<K, V> { #[verifier::external_body] fn clone(&self) -> (r: Self) ensures r == *self { unimplemented!() } }
impl<K, V> Clone for HashMap<K, V> { #[verifier::external_body] fn clone(&self) -> (r: Self) ensures r == *self { unimplemented!() } }
/// greatest key of a non-empty u64-keyed tree
pub uninterp spec fn btree_max_key<V>(m: BTreeMap<u64, V>) -> u64;
pub broadcast axiom fn ax_btree_max_key<V>(m: BTreeMap<u64, V>, k: u64)
    requires #[trigger] btree_view(m).contains_key(k)
    ensures btree_view(m).contains_key(btree_max_key(m)), k <= btree_max_key(m);
impl<V> BTreeMap<u64, V> {
    #[verifier::external_body]
    pub fn last_key_value(&self) -> (r: Option<(&u64, &V)>)
        ensures match r {
            None => btree_view(*self).dom() =~= vstd::set::Set::<u64>::empty(),
            Some((k, v)) => btree_view(*self).contains_key(*k) && *k == btree_max_key(*self) && btree_view(*self)[*k] == *v,
        } { unimplemented!() }
    /// the entry under the SMALLEST key
    #[verifier::external_body]
    pub fn first_key_value(&self) -> (r: Option<(&u64, &V)>)
        ensures match r {
            None => btree_view(*self).dom() =~= vstd::set::Set::<u64>::empty(),
            Some((k, v)) => btree_view(*self).contains_key(*k) && btree_view(*self)[*k] == *v && forall|k2: u64| btree_view(*self).contains_key(k2) ==> *k <= k2,
        } { unimplemented!() }
    #[verifier::external_body]
    pub fn is_empty(&self) -> (r: bool) ensures r == (btree_view(*self).dom() =~= vstd::set::Set::<u64>::empty()) { unimplemented!() }
    #[verifier::external_body]
    pub fn clear(&mut self) ensures btree_view(*final(self)) =~= vstd::map::Map::<u64, V>::empty() { unimplemented!() }
    /// std `retain` (the closure of the real signature takes `&mut V`; it is modelled read-only): keeps exactly the entries the closure accepts
    #[verifier::external_body]
    pub fn retain<F: Fn(&u64, &V) -> bool>(&mut self, f: F)
        requires forall|k: u64| btree_view(*old(self)).contains_key(k) ==> f.requires((&k, &btree_view(*old(self))[k]))
        ensures forall|k: u64| #![trigger btree_view(*final(self)).contains_key(k)]
                    (btree_view(*final(self)).contains_key(k) ==> btree_view(*old(self)).contains_key(k) && btree_view(*final(self))[k] == btree_view(*old(self))[k]
                        && f.ensures((&k, &btree_view(*old(self))[k]), true))
                    && (btree_view(*old(self)).contains_key(k) && f.ensures((&k, &btree_view(*old(self))[k]), false) ==> !btree_view(*final(self)).contains_key(k))
    { unimplemented!() }
    /// `range(..=hi)` / `range(..hi)`: the entries below the bound (only the back end of the iterator is modelled)
    #[verifier::external_body]
    pub fn range<R: U64UpperBound>(&self, r: R) -> (it: BTreeRangeTo<'_, V>) ensures it.m == self, it.hi == r.upper() { unimplemented!() }
}
pub trait U64UpperBound { spec fn upper(&self) -> int; }
impl U64UpperBound for core::ops::RangeToInclusive<u64> { open spec fn upper(&self) -> int { self.end as int + 1 } }
impl U64UpperBound for core::ops::RangeTo<u64> { open spec fn upper(&self) -> int { self.end as int } }
pub struct BTreeRangeTo<'a, V> { pub m: &'a BTreeMap<u64, V>, pub hi: int }
impl<'a, V> BTreeRangeTo<'a, V> {
    /// the greatest entry strictly below the bound, if any
    #[verifier::external_body]
    pub fn next_back(&mut self) -> (r: Option<(&'a u64, &'a V)>)
        ensures match r {
            None => forall|k: u64| btree_view(*old(self).m).contains_key(k) ==> k >= old(self).hi,
            Some((k, v)) => btree_view(*old(self).m).contains_key(*k) && *k < old(self).hi && btree_view(*old(self).m)[*k] == *v
                && forall|k2: u64| btree_view(*old(self).m).contains_key(k2) && k2 < old(self).hi ==> k2 <= *k,
        } { unimplemented!() }
    /// `rfind` (DoubleEndedIterator): the greatest entry below the bound that the predicate accepts, if any
    #[verifier::external_body]
    pub fn rfind<F: FnMut(&(&'a u64, &'a V)) -> bool>(&mut self, f: F) -> (r: Option<(&'a u64, &'a V)>)
        requires forall|k: &'a u64, v: &'a V| btree_view(*old(self).m).contains_key(*k) && *k < old(self).hi && btree_view(*old(self).m)[*k] == *v ==> f.requires((&(k, v),))
        ensures match r {
            None => forall|k: &'a u64, v: &'a V| btree_view(*old(self).m).contains_key(*k) && *k < old(self).hi && btree_view(*old(self).m)[*k] == *v ==> f.ensures((&(k, v),), false),
            Some((k, v)) => btree_view(*old(self).m).contains_key(*k) && *k < old(self).hi && btree_view(*old(self).m)[*k] == *v && f.ensures((&(k, v),), true)
                && forall|k2: &'a u64, v2: &'a V| btree_view(*old(self).m).contains_key(*k2) && *k2 < old(self).hi && *k2 > *k && btree_view(*old(self).m)[*k2] == *v2 ==> f.ensures((&(k2, v2),), false),
        } { unimplemented!() }
}
pub uninterp spec fn hash_view<K, V>(m: HashMap<K, V>) -> vstd::map::Map<K, V>;
impl<V> HashMap<u64, V> {
    #[verifier::external_body]
    pub fn clear(&mut self) { unimplemented!() }
}
/// D26 targets (std documentation): `HashMap::new()` and `<BTreeMap as Default>::default()` are the empty maps
#[verifier::external_body] pub fn verif_hashmap_new<K, V>() -> (r: HashMap<K, V>) ensures hash_view(r) =~= vstd::map::Map::<K, V>::empty() { unimplemented!() }
#[verifier::external_body] pub fn verif_btreemap_default<K, V>() -> (r: BTreeMap<K, V>) ensures btree_view(r) =~= vstd::map::Map::<K, V>::empty() { unimplemented!() }
/// u64::abs_diff (std documentation)
pub assume_specification [u64::abs_diff] (a: u64, b: u64) -> (r: u64) ensures r == (if a >= b { a - b } else { b - a });
/// slice::reverse (std documentation): the elements in reverse order
pub assume_specification<T> [<[T]>::reverse] (s: &mut [T])
    ensures final(s)@ == old(s)@.reverse();
/// Option::<Result<T, E>>::transpose (std documentation): None -> Ok(None), Some(Ok(v)) -> Ok(Some(v)), Some(Err(e)) -> Err(e)
pub assume_specification<T, E> [Option::<Result<T, E>>::transpose] (o: Option<Result<T, E>>) -> (out: Result<Option<T>, E>)
    ensures match o { None => out == Ok::<Option<T>, E>(None), Some(Ok(v)) => out == Ok::<Option<T>, E>(Some(v)), Some(Err(e)) => out == Err::<Option<T>, E>(e) };
/// Result::unwrap_or_else (std documentation): the Ok value, else what the closure makes of the error
pub assume_specification<T, E, F: FnOnce(E) -> T> [Result::<T, E>::unwrap_or_else] (res: Result<T, E>, f: F) -> (out: T)
    requires res is Err ==> f.requires((res->Err_0,)),
    ensures match res { Ok(v) => out == v, Err(e) => f.ensures((e,), out) };
/// Result::and_then (std documentation): the closure is called on the Ok value, an Err is passed through
pub assume_specification<T, E, U, F: FnOnce(T) -> Result<U, E>> [Result::<T, E>::and_then] (res: Result<T, E>, f: F) -> (out: Result<U, E>)
    requires res is Ok ==> f.requires((res->Ok_0,)),
    ensures match res { Ok(v) => f.ensures((v,), out), Err(e) => out == Err::<U, E>(e) };
/// Vec::retain keeps, in order, exactly the elements the predicate accepts (std documentation)
pub assume_specification<T, A: core::alloc::Allocator, F: FnMut(&T) -> bool> [Vec::<T, A>::retain] (v: &mut Vec<T, A>, f: F)
    requires forall|x: T| old(v)@.contains(x) ==> f.requires((&x,))
    ensures final(v)@ == old(v)@.filter(|x: T| f.ensures((&x,), true)),
        // the predicate is called on every element and an element is dropped only when that call returned false
        forall|x: T| old(v)@.contains(x) && !f.ensures((&x,), false) ==> #[trigger] final(v)@.contains(x);
/// proved: members of a filtered sequence satisfy the predicate and come from the original
pub broadcast proof fn lemma_filter_members<T>(l: Seq<T>, p: spec_fn(T) -> bool)
    ensures #![trigger l.filter(p)] l.filter(p).len() <= l.len(),
        forall|j: int| 0 <= j < l.filter(p).len() ==> p(#[trigger] l.filter(p)[j]) && l.contains(l.filter(p)[j])
    decreases l.len()
{
    reveal(Seq::filter);
    if l.len() > 0 {
        let lp = l.drop_last();
        lemma_filter_members(lp, p);
        let fp = lp.filter(p);
        assert forall|j: int| 0 <= j < l.filter(p).len() implies p(#[trigger] l.filter(p)[j]) && l.contains(l.filter(p)[j]) by {
            if j < fp.len() { let k = choose|k: int| 0 <= k < lp.len() && lp[k] == fp[j]; assert(l[k] == lp[k]); } else { assert(l[l.len() - 1] == l.last()); }
        }
    }
}
pub assume_specification<T, E> [Result::<T, E>::unwrap_or] (r: Result<T, E>, default: T) -> (v: T)
    ensures r is Ok ==> v == r->Ok_0, r is Err ==> v == default;
pub assume_specification<T: Default, E> [Result::<T, E>::unwrap_or_default] (r: Result<T, E>) -> (v: T)
    ensures r is Ok ==> v == r->Ok_0;
// ---- byte-string ordering (DEFINED and proved a total order) and the sort/concat helpers used by the factory keys (ASSUMED) ----
/// lexicographic order on byte strings (what `<[u8] as Ord>::cmp` computes, and the order cw-storage-plus ranges iterate in)
#[verifier::opaque]
pub open spec fn lex_le(a: Seq<u8>, b: Seq<u8>) -> bool decreases a.len() {
    if a.len() == 0 { true } else if b.len() == 0 { false }
    else if a[0] != b[0] { a[0] < b[0] } else { lex_le(a.drop_first(), b.drop_first()) }
}
pub broadcast proof fn ax_lex_total(a: Seq<u8>, b: Seq<u8>) ensures #[trigger] lex_le(a, b) || lex_le(b, a) decreases a.len() {
    reveal_with_fuel(lex_le, 2);
    if a.len() > 0 && b.len() > 0 && a[0] == b[0] { ax_lex_total(a.drop_first(), b.drop_first()); }
}
pub broadcast proof fn ax_lex_antisym(a: Seq<u8>, b: Seq<u8>) requires #[trigger] lex_le(a, b), #[trigger] lex_le(b, a) ensures a == b decreases a.len() {
    reveal_with_fuel(lex_le, 2);
    if a.len() > 0 && b.len() > 0 {
        ax_lex_antisym(a.drop_first(), b.drop_first());
        assert(a =~= seq![a[0]] + a.drop_first());
        assert(b =~= seq![b[0]] + b.drop_first());
    } else { assert(a =~= b); }
}
pub broadcast proof fn ax_lex_trans(a: Seq<u8>, b: Seq<u8>, c: Seq<u8>) requires #[trigger] lex_le(a, b), #[trigger] lex_le(b, c) ensures lex_le(a, c) decreases a.len() {
    reveal_with_fuel(lex_le, 2);
    if a.len() > 0 && b.len() > 0 && c.len() > 0 && a[0] == b[0] && b[0] == c[0] { ax_lex_trans(a.drop_first(), b.drop_first(), c.drop_first()); }
}
pub open spec fn lex_lt(a: Seq<u8>, b: Seq<u8>) -> bool { lex_le(a, b) && a != b }
/// no byte 0x00 / 0x01 (what denoms and bech32 addresses, i.e. every registry key built from asset labels, satisfy)
pub open spec fn bytes_ge2(k: Seq<u8>) -> bool { forall|i: int| 0 <= i < k.len() ==> k[i] >= 2 }
/// the "append a 1 byte" cursor trick (proved): for a key without bytes 0x00/0x01, being after `c ++ [1]` is being after `c`
pub proof fn lemma_lex_push1(c: Seq<u8>, k: Seq<u8>)
    requires bytes_ge2(k)
    ensures lex_lt(c.push(1), k) == lex_lt(c, k)
    decreases c.len()
{
    reveal_with_fuel(lex_le, 2);
    if c.len() == 0 {
        assert(c.push(1).drop_first() =~= Seq::<u8>::empty());
        if k.len() > 0 { assert(k[0] >= 2); assert(c.push(1)[0] == 1); assert(lex_le(c.push(1), k)); assert(lex_le(c, k)); assert(c.push(1) != k); assert(c.len() != k.len()); }
        else { assert(!lex_le(c.push(1), k)); assert(c =~= k); }
    } else if k.len() == 0 {
        assert(!lex_le(c.push(1), k)); assert(!lex_le(c, k));
    } else {
        assert(c.push(1).drop_first() =~= c.drop_first().push(1));
        assert(c.push(1)[0] == c[0]);
        if c[0] == k[0] {
            assert(bytes_ge2(k.drop_first())) by { assert forall|i: int| 0 <= i < k.drop_first().len() implies k.drop_first()[i] >= 2 by { assert(k.drop_first()[i] == k[i + 1]); } }
            lemma_lex_push1(c.drop_first(), k.drop_first());
            assert(c =~= seq![c[0]] + c.drop_first());
            assert(k =~= seq![k[0]] + k.drop_first());
            assert(c.push(1) =~= seq![c[0]] + c.drop_first().push(1));
            if c.drop_first() == k.drop_first() { assert(c =~= k); }
            if c.drop_first().push(1) == k.drop_first() { assert(c.push(1) =~= k); }
            if c == k { assert(c.drop_first() =~= k.drop_first()); }
            if c.push(1) == k { assert(c.drop_first().push(1) =~= k.drop_first()); }
        } else {
            assert(lex_le(c.push(1), k) == (c[0] < k[0]));
            assert(lex_le(c, k) == (c[0] < k[0]));
            assert(c != k); assert(c.push(1) != k);
        }
    }
}
/// array extensionality (proved, not assumed): arrays with equal views are equal
pub broadcast proof fn lemma_array_ext<T, const N: usize>(a: [T; N], b: [T; N])
    requires a@ =~= b@ ensures #![trigger a@, b@] a == b { assert(a =~= b); }
pub broadcast group group_lex { ax_lex_total, ax_lex_antisym, ax_lex_trans, lemma_array_ext, lemma_filter_members }
//@broadcast group_lex
pub open spec fn sort2(a: Seq<u8>, b: Seq<u8>) -> Seq<Seq<u8>> { if lex_le(a, b) { seq![a, b] } else { seq![b, a] } }
pub open spec fn sort3(a: Seq<u8>, b: Seq<u8>, c: Seq<u8>) -> Seq<Seq<u8>> {
    if lex_le(a, b) { if lex_le(b, c) { seq![a, b, c] } else if lex_le(a, c) { seq![a, c, b] } else { seq![c, a, b] } }
    else { if lex_le(a, c) { seq![b, a, c] } else if lex_le(b, c) { seq![b, c, a] } else { seq![c, b, a] } }
}
pub trait HasBytes { spec fn bytes_of(&self) -> Seq<u8>; }
/// D12 target: `v.sort_by(|a, b| a.as_bytes().cmp(b.as_bytes()))` on 2 or 3 elements (stable sort by the byte strings)
#[verifier::external_body]
pub fn verif_sort_by_bytes<T: HasBytes>(v: &mut Vec<T>)
    ensures final(v)@.len() == old(v)@.len(),
        old(v)@.len() == 2 ==> final(v)@.map_values(|x: T| x.bytes_of()) =~= sort2(old(v)@[0].bytes_of(), old(v)@[1].bytes_of()),
        old(v)@.len() == 3 ==> final(v)@.map_values(|x: T| x.bytes_of()) =~= sort3(old(v)@[0].bytes_of(), old(v)@[1].bytes_of(), old(v)@[2].bytes_of()),
{ unimplemented!() }
/// D13 targets: `[a, b].concat()` / `[a, b, c].concat()` on byte slices
#[verifier::external_body] pub fn verif_concat2(a: &[u8], b: &[u8]) -> (r: Vec<u8>) ensures r@ == a@ + b@ { unimplemented!() }
#[verifier::external_body] pub fn verif_concat3(a: &[u8], b: &[u8], c: &[u8]) -> (r: Vec<u8>) ensures r@ == a@ + b@ + c@ { unimplemented!() }
/// concatenation of the first n inner vectors, in order
pub open spec fn flat_upto<T>(v: Seq<Vec<T>>, n: int) -> Seq<T> decreases n { if n <= 0 { Seq::empty() } else { flat_upto(v, n - 1) + v[n - 1]@ } }
/// D13 target: `vv.concat()` on a Vec<Vec<T>> (std: the inner vectors one after the other)
#[verifier::external_body] pub fn verif_concat_vecs<T: Clone>(v: &Vec<Vec<T>>) -> (r: Vec<T>) ensures r@ == flat_upto(v@, v@.len() as int) { unimplemented!() }
/// extensionality for std Vec (exec `==`/clone work on the elements; this lifts view equality to spec equality); NOT in a default broadcast group
pub broadcast axiom fn ax_vec_ext<T>(a: Vec<T>, b: Vec<T>) requires #[trigger] a@ == #[trigger] b@ ensures a == b;
/// ASSUMED (Rust allocation limit): a Vec of a non-zero-sized element type holds at most isize::MAX bytes, hence at most isize::MAX elements
pub axiom fn ax_vec_alloc_limit<T>(v: &Vec<T>) ensures v@.len() <= isize::MAX;
/// D18 target: `a.min(b)` on primitive integers (`Ord::min`)
pub trait VerifOrdMin: Sized { spec fn as_int(self) -> int; }
impl VerifOrdMin for u8 { open spec fn as_int(self) -> int { self as int } }
impl VerifOrdMin for u32 { open spec fn as_int(self) -> int { self as int } }
impl VerifOrdMin for u64 { open spec fn as_int(self) -> int { self as int } }
impl VerifOrdMin for usize { open spec fn as_int(self) -> int { self as int } }
impl VerifOrdMin for u128 { open spec fn as_int(self) -> int { self as int } }
#[verifier::external_body]
pub fn verif_ord_min<T: VerifOrdMin>(a: T, b: T) -> (r: T) ensures r == (if a.as_int() <= b.as_int() { a } else { b }) { unimplemented!() }
/// D14 target (method form, so that `x` may be an array, a reference to one, or a Vec): `x.to_vec()` (element-wise clone)
pub trait VerifToVec<T> { spec fn tv_view(&self) -> Seq<T>; fn verif_to_vec(&self) -> (r: Vec<T>) ensures r@ == self.tv_view(); }
impl<T, const N: usize> VerifToVec<T> for [T; N] {
    open spec fn tv_view(&self) -> Seq<T> { self@ }
    #[verifier::external_body] fn verif_to_vec(&self) -> (r: Vec<T>) { unimplemented!() }
}
impl<T> VerifToVec<T> for Vec<T> {
    open spec fn tv_view(&self) -> Seq<T> { self@ }
    #[verifier::external_body] fn verif_to_vec(&self) -> (r: Vec<T>) { unimplemented!() }
}
/// D14 target: `arr.to_vec()` (element-wise clone)
#[verifier::external_body] pub fn verif_arr_to_vec<T, const N: usize>(a: &[T; N]) -> (r: Vec<T>) ensures r@ == a@ { unimplemented!() }

/// `Display` of the numeric wrappers (`x.to_string()` in response attributes and error payloads): an arbitrary text — no clause may depend on it
impl Uint128 { #[verifier::external_body] pub fn to_string(&self) -> (r: String) { unimplemented!() } }
impl Uint256 { #[verifier::external_body] pub fn to_string(&self) -> (r: String) { unimplemented!() } }
impl Uint64 { #[verifier::external_body] pub fn to_string(&self) -> (r: String) { unimplemented!() } }
impl Decimal { #[verifier::external_body] pub fn to_string(&self) -> (r: String) { unimplemented!() } }
impl Decimal256 { #[verifier::external_body] pub fn to_string(&self) -> (r: String) { unimplemented!() } }
