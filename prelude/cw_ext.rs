// ---- small additions to the cosmwasm-std prelude used by single units (ASSUMED contracts on the dependency) ----
impl Addr {
    /// `AsRef<str> for Addr`: the address text
    #[verifier::external_body] pub fn as_ref(&self) -> (r: &str) ensures r@ == self.s@ { unimplemented!() }
}
