// ---- cw-controllers Admin / Hooks (ASSUMED contracts) ----
#[derive(Debug)] pub struct AdminError { pub _o: u8 }
#[derive(Debug)] pub struct HookError { pub _o: u8 }
pub struct Admin { pub ns: u64 }
impl Admin {
    pub open spec fn key(&self) -> (int, Seq<u8>) { (self.ns as int, Seq::<u8>::empty()) }
    /// the stored admin (None when unset)
    pub open spec fn admin_of(&self, s: &Storage) -> Option<Addr> {
        if s.kv@.contains_key(self.key()) { de::<Option<Addr>>(s.kv@[self.key()]) } else { None }
    }
    pub open spec fn is_admin_spec(&self, s: &Storage, who: Addr) -> bool {
        self.admin_of(s) matches Some(a) && a.s@ == who.s@
    }
    #[verifier::external_body]
    pub fn assert_admin(&self, deps: Deps, caller: &Addr) -> (r: Result<(), AdminError>)
        ensures r is Ok <==> self.is_admin_spec(deps.storage, *caller) { unimplemented!() }
    #[verifier::external_body]
    pub fn is_admin(&self, deps: Deps, caller: &Addr) -> (r: Result<bool, StdError>)
        ensures r is Ok && r->Ok_0 == self.is_admin_spec(deps.storage, *caller) { unimplemented!() }
    #[verifier::external_body]
    pub fn get(&self, deps: Deps) -> (r: Result<Option<Addr>, StdError>)
        ensures r is Ok && r->Ok_0 == self.admin_of(deps.storage) { unimplemented!() }
    /// R15 target: `ADMIN.set(deps.branch(), a)` (cw-controllers: saves the Option under the admin item; touches storage only)
    #[verifier::external_body]
    pub fn set_in(&self, s: &mut Storage, a: Option<Addr>) -> (r: Result<(), StdError>)
        ensures r is Ok, final(s).kv@ == old(s).kv@.insert(self.key(), ser(a)) { unimplemented!() }
}
pub struct Hooks { pub ns: u64 }
impl Hooks {
    pub open spec fn key(&self) -> (int, Seq<u8>) { (self.ns as int, Seq::<u8>::empty()) }
    /// registered hooks, in registration order
    pub open spec fn hooks_of(&self, s: &Storage) -> Seq<Addr> {
        if s.kv@.contains_key(self.key()) { de::<Vec<Addr>>(s.kv@[self.key()])@ } else { Seq::<Addr>::empty() }
    }
    /// cw-controllers: `admin.assert_admin(deps.as_ref(), &info.sender)?` first; then add (Err if already registered)
    #[verifier::external_body]
    pub fn execute_add_hook(&self, admin: &Admin, deps: DepsMut, info: MessageInfo, addr: Addr) -> (r: Result<Response, HookError>)
        ensures !admin.is_admin_spec(&*old(deps.storage), info.sender) ==> r is Err && final(deps.storage).kv@ == old(deps.storage).kv@,
                r is Ok ==> self.hooks_of(&*final(deps.storage)) =~= self.hooks_of(&*old(deps.storage)).push(addr)
                    && final(deps.storage).kv@ == old(deps.storage).kv@.insert(self.key(), final(deps.storage).kv@[self.key()])
    { unimplemented!() }
    #[verifier::external_body]
    pub fn execute_remove_hook(&self, admin: &Admin, deps: DepsMut, info: MessageInfo, addr: Addr) -> (r: Result<Response, HookError>)
        ensures !admin.is_admin_spec(&*old(deps.storage), info.sender) ==> r is Err && final(deps.storage).kv@ == old(deps.storage).kv@,
                r is Ok ==> final(deps.storage).kv@ == old(deps.storage).kv@.insert(self.key(), final(deps.storage).kv@[self.key()]),
                // cw-controllers 1.1 `Hooks::remove_hook`: the first registration of `addr` is taken out (Err when it is not registered)
                r is Ok ==> exists|i: int| 0 <= i < self.hooks_of(&*old(deps.storage)).len() && (#[trigger] self.hooks_of(&*old(deps.storage))[i]).s@ == addr.s@
                    && self.hooks_of(&*final(deps.storage)) =~= self.hooks_of(&*old(deps.storage)).remove(i)
    { unimplemented!() }
    /// one prepared message per registered hook, in order; the first failing `prep` aborts with its error
    #[verifier::external_body]
    pub fn prepare_hooks<F: Fn(Addr) -> Result<SubMsg, StdError>>(&self, s: &Storage, prep: F) -> (r: Result<Vec<SubMsg>, StdError>)
        requires forall|a: Addr| prep.requires((a,))
        ensures r is Ok ==> r->Ok_0@.len() == self.hooks_of(s).len()
                    && forall|i: int| 0 <= i < r->Ok_0@.len() ==> prep.ensures((#[trigger] self.hooks_of(s)[i],), Ok(r->Ok_0@[i])),
                (forall|a: Addr, x: Result<SubMsg, StdError>| prep.ensures((a,), x) ==> x is Ok) ==> r is Ok
    { unimplemented!() }
}
