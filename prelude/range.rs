// ---- raw-key range iteration over a whole map namespace: cw-storage-plus `Map<&[u8], T>::range(store, min, None, Ascending)` ----
// ASSUMED model of the dependency: the storage iterates a namespace in ascending lexicographic order of the raw keys, a raw bound
// admits the keys after (Exclusive) / from (Inclusive) the given bytes. Everything derived from that (filter lemmas, the cursor
// trick, the page walk) is PROVED below.
pub enum Bound { ExclusiveRaw(Vec<u8>), InclusiveRaw(Vec<u8>) }
/// all raw keys stored in namespace `ns`, in ascending lexicographic order
pub uninterp spec fn ns_keys(kv: KV, ns: int) -> Seq<Seq<u8>>;
pub broadcast axiom fn ax_ns_keys_members(kv: KV, ns: int, k: Seq<u8>)
    ensures #[trigger] ns_keys(kv, ns).contains(k) == kv.contains_key((ns, k));
pub broadcast axiom fn ax_ns_keys_sorted(kv: KV, ns: int, i: int, j: int)
    requires 0 <= i < j < ns_keys(kv, ns).len()
    ensures lex_lt(#[trigger] ns_keys(kv, ns)[i], #[trigger] ns_keys(kv, ns)[j]);
pub open spec fn bound_admits(b: Option<Bound>, k: Seq<u8>) -> bool {
    match b { None => true, Some(Bound::ExclusiveRaw(c)) => lex_lt(c@, k), Some(Bound::InclusiveRaw(c)) => lex_le(c@, k) }
}
/// `.range(store, start, None, Ascending)[.skip(skip)].take(limit)` as a sequence of raw keys
pub open spec fn range_keys(kv: KV, ns: int, start: Option<Bound>, skip: int, limit: int) -> Seq<Seq<u8>> {
    let f = ns_keys(kv, ns).filter(|k: Seq<u8>| bound_admits(start, k));
    let s = if skip >= f.len() { Seq::<Seq<u8>>::empty() } else if skip <= 0 { f } else { f.skip(skip) };
    if s.len() <= limit { s } else if limit <= 0 { Seq::<Seq<u8>>::empty() } else { s.take(limit) }
}
/// D22 target: the items `MAP.range(store, start, None, Order::Ascending)[.skip(n)].take(limit)` yields (every stored value decodes)
#[verifier::external_body]
pub fn verif_range_raw_asc<T>(m: &Map<&'static [u8], T>, s: &Storage, start: Option<Bound>, skip: usize, limit: usize) -> (r: Vec<Result<(Vec<u8>, T), StdError>>)
    ensures ({
        let ks = range_keys(s.kv@, m.ns as int, start, skip as int, limit as int);
        &&& r@.len() == ks.len()
        &&& forall|i: int| 0 <= i < ks.len() ==> (#[trigger] r@[i]) is Ok && r@[i]->Ok_0.0@ == ks[i] && r@[i]->Ok_0.1 == de::<T>(s.kv@[(m.ns as int, ks[i])])
    }) { unimplemented!() }
/// `.range(store, None, None, Descending)[.skip(skip)].take(limit)`: the same keys from the far end
pub open spec fn range_keys_desc(kv: KV, ns: int, skip: int, limit: int) -> Seq<Seq<u8>> {
    let f = ns_keys(kv, ns).reverse();
    let s = if skip >= f.len() { Seq::<Seq<u8>>::empty() } else if skip <= 0 { f } else { f.skip(skip) };
    if s.len() <= limit { s } else if limit <= 0 { Seq::<Seq<u8>>::empty() } else { s.take(limit) }
}
/// D22 target (descending, unbounded): the items `MAP.range(store, None, None, Order::Descending)[.skip(n)].take(limit)` yields
#[verifier::external_body]
pub fn verif_range_raw_desc<T>(m: &Map<&'static [u8], T>, s: &Storage, skip: usize, limit: usize) -> (r: Vec<Result<(Vec<u8>, T), StdError>>)
    ensures ({
        let ks = range_keys_desc(s.kv@, m.ns as int, skip as int, limit as int);
        &&& r@.len() == ks.len()
        &&& forall|i: int| 0 <= i < ks.len() ==> (#[trigger] r@[i]) is Ok && r@[i]->Ok_0.0@ == ks[i] && r@[i]->Ok_0.1 == de::<T>(s.kv@[(m.ns as int, ks[i])])
    }) { unimplemented!() }
/// D23 targets: `MAP.range(store, None, None, Order::Descending).next()` / `..Ascending).next()`: the entry with the greatest / least raw key
#[verifier::external_body]
pub fn verif_range_last<T>(m: &Map<&'static [u8], T>, s: &Storage) -> (r: Option<Result<(Vec<u8>, T), StdError>>)
    ensures ({
        let ks = ns_keys(s.kv@, m.ns as int);
        if ks.len() == 0 { r is None } else { r is Some && r->Some_0 is Ok && r->Some_0->Ok_0.0@ == ks.last() && r->Some_0->Ok_0.1 == de::<T>(s.kv@[(m.ns as int, ks.last())]) }
    }) { unimplemented!() }
#[verifier::external_body]
pub fn verif_range_first<T>(m: &Map<&'static [u8], T>, s: &Storage) -> (r: Option<Result<(Vec<u8>, T), StdError>>)
    ensures ({
        let ks = ns_keys(s.kv@, m.ns as int);
        if ks.len() == 0 { r is None } else { r is Some && r->Some_0 is Ok && r->Some_0->Ok_0.0@ == ks[0] && r->Some_0->Ok_0.1 == de::<T>(s.kv@[(m.ns as int, ks[0])]) }
    }) { unimplemented!() }
/// entries under a 2-component prefix whose third component (u64, filed as its 8 big-endian bytes) is admitted by a raw lower bound
pub open spec fn prefix_entries_from<T>(kv: KV, ns: int, pb: Seq<u8>, start: Option<Bound>) -> Seq<(u64, T)> {
    prefix_entries_u64::<T>(kv, ns, pb).filter(|e: (u64, T)| bound_admits(start, be_bytes_u64(e.0)))
}
pub open spec fn skip_n<T>(s: Seq<T>, n: int) -> Seq<T> { if n >= s.len() { Seq::empty() } else if n <= 0 { s } else { s.skip(n) } }
/// D22 target (prefix form): the items `MAP.prefix((a, b)).range(store, start, None, Order::Ascending)[.skip(n)].take(limit)` yields
#[verifier::external_body]
pub fn verif_prefix_range_from<A: KeyEnc, B: KeyEnc, T>(m: &Map<(A, B, u64), T>, s: &Storage, p: (A, B), start: Option<Bound>, skip: usize, limit: usize) -> (r: Vec<Result<(u64, T), StdError>>)
    ensures ({
        let es = first_n(skip_n(prefix_entries_from::<T>(s.kv@, m.ns as int, enc_pair(p.0.key_bytes(), p.1.key_bytes()), start), skip as int), limit as int);
        &&& r@.len() == es.len()
        &&& forall|i: int| 0 <= i < es.len() ==> (#[trigger] r@[i]) is Ok && r@[i]->Ok_0 == es[i]
    }) { unimplemented!() }
/// D14 target: `x.to_be_bytes().to_vec()` on a u64
#[verifier::external_body] pub fn verif_u64_be_vec(v: u64) -> (r: Vec<u8>) ensures r@ == be_bytes_u64(v) { unimplemented!() }
/// ASSUMED: a u64 is filed as 8 bytes
pub broadcast axiom fn ax_be_bytes_u64_len(v: u64) ensures (#[trigger] be_bytes_u64(v)).len() == 8;
/// proved: for byte strings of equal length, being after `a ++ [0]` is being after `a` (the "append a 0 byte" resume point of fixed-width keys)
pub proof fn lemma_lex_push0_same_len(a: Seq<u8>, k: Seq<u8>)
    requires a.len() == k.len()
    ensures lex_lt(a.push(0), k) == lex_lt(a, k)
    decreases a.len()
{
    reveal_with_fuel(lex_le, 2);
    if a.len() == 0 {
        assert(a =~= k);
        assert(!lex_le(a.push(0), k));
    } else {
        assert(a.push(0).drop_first() =~= a.drop_first().push(0));
        assert(a.push(0)[0] == a[0]);
        if a[0] == k[0] {
            lemma_lex_push0_same_len(a.drop_first(), k.drop_first());
            assert(a =~= seq![a[0]] + a.drop_first());
            assert(k =~= seq![k[0]] + k.drop_first());
            assert(a.push(0) =~= seq![a[0]] + a.drop_first().push(0));
            if a.drop_first() == k.drop_first() { assert(a =~= k); }
            if a.drop_first().push(0) == k.drop_first() { assert(a.push(0) =~= k); }
            if a == k { assert(a.drop_first() =~= k.drop_first()); }
            if a.push(0) == k { assert(a.drop_first().push(0) =~= k.drop_first()); }
        } else {
            assert(lex_le(a.push(0), k) == (a[0] < k[0]));
            assert(lex_le(a, k) == (a[0] < k[0]));
            assert(a != k); assert(a.push(0) != k);
        }
    }
}
/// proved: resuming exclusively at `be(t) ++ [0]` lists exactly the entries with a greater u64 component
pub proof fn lemma_entries_after_u64_cursor<T>(kv: KV, ns: int, pb: Seq<u8>, t: u64, b: Vec<u8>)
    requires b@ == be_bytes_u64(t).push(0)
    ensures prefix_entries_from::<T>(kv, ns, pb, Some(Bound::ExclusiveRaw(b))) == prefix_entries_u64::<T>(kv, ns, pb).filter(|e: (u64, T)| e.0 > t)
{
    broadcast use ax_be_bytes_u64_len, ax_be_bytes_u64_order, group_lex;
    let all = prefix_entries_u64::<T>(kv, ns, pb);
    let p = |e: (u64, T)| bound_admits(Some(Bound::ExclusiveRaw(b)), be_bytes_u64(e.0));
    let q = |e: (u64, T)| e.0 > t;
    assert forall|i: int| 0 <= i < all.len() implies p(#[trigger] all[i]) == q(all[i]) by {
        let x = all[i].0;
        lemma_lex_push0_same_len(be_bytes_u64(t), be_bytes_u64(x));
        ax_be_bytes_u64_order(t, x); ax_be_bytes_u64_order(x, t);
        if be_bytes_u64(t) == be_bytes_u64(x) { ax_be_bytes_u64(t); ax_be_bytes_u64(x); }
    }
    lemma_filter_ext(all, p, q);
}
/// ASSUMED: the big-endian encoding of u64 preserves the order (byte-wise comparison of equal-length big-endian numbers)
pub broadcast axiom fn ax_be_bytes_u64_order(a: u64, b: u64)
    ensures #[trigger] lex_le(be_bytes_u64(a), be_bytes_u64(b)) == (a <= b);
/// proved: filters whose predicates agree on the members are equal
pub proof fn lemma_filter_ext<T>(l: Seq<T>, p: spec_fn(T) -> bool, q: spec_fn(T) -> bool)
    requires forall|i: int| 0 <= i < l.len() ==> p(#[trigger] l[i]) == q(l[i])
    ensures l.filter(p) == l.filter(q)
    decreases l.len()
{
    reveal(Seq::filter);
    if l.len() > 0 {
        let lp = l.drop_last();
        assert forall|i: int| 0 <= i < lp.len() implies p(#[trigger] lp[i]) == q(lp[i]) by { assert(lp[i] == l[i]); }
        lemma_filter_ext(lp, p, q);
        assert(l.last() == l[l.len() - 1]);
    }
}
/// proved: a predicate that is false up to index j (inclusive) and true after it filters out exactly that prefix
pub proof fn lemma_filter_suffix<T>(l: Seq<T>, p: spec_fn(T) -> bool, j: int)
    requires -1 <= j < l.len(),
        forall|i: int| 0 <= i <= j ==> !p(#[trigger] l[i]),
        forall|i: int| j < i < l.len() ==> p(#[trigger] l[i])
    ensures l.filter(p) =~= l.skip(j + 1)
    decreases l.len()
{
    reveal(Seq::filter);
    if l.len() > 0 {
        let lp = l.drop_last();
        if j == l.len() - 1 {
            assert forall|i: int| 0 <= i < lp.len() implies !p(#[trigger] lp[i]) by { assert(lp[i] == l[i]); }
            lemma_filter_suffix(lp, p, j - 1);
            assert(!p(l.last()));
        } else {
            assert forall|i: int| 0 <= i <= j implies !p(#[trigger] lp[i]) by { assert(lp[i] == l[i]); }
            assert forall|i: int| j < i < lp.len() implies p(#[trigger] lp[i]) by { assert(lp[i] == l[i]); }
            lemma_filter_suffix(lp, p, j);
            assert(p(l.last()));
            assert(lp.skip(j + 1).push(l.last()) =~= l.skip(j + 1));
        }
    }
}
/// the registry keys of a namespace hold no byte 0x00 / 0x01 (denoms, bech32 addresses: every key built from asset labels)
pub open spec fn ns_keys_printable(kv: KV, ns: int) -> bool { forall|i: int| 0 <= i < ns_keys(kv, ns).len() ==> bytes_ge2(#[trigger] ns_keys(kv, ns)[i]) }
/// what a paginated listing owes its caller: the entries strictly after the cursor (all of them without one), in key order
pub open spec fn keys_after(kv: KV, ns: int, cursor: Option<Seq<u8>>) -> Seq<Seq<u8>> {
    match cursor { None => ns_keys(kv, ns), Some(c) => ns_keys(kv, ns).filter(|k: Seq<u8>| lex_lt(c, k)) }
}
pub open spec fn first_n<T>(s: Seq<T>, n: int) -> Seq<T> { if s.len() <= n { s } else if n <= 0 { Seq::empty() } else { s.take(n) } }
/// the "append a 1 byte" resume point loses nothing: no stored key lies in the gap (cursor, cursor ++ [1]], i.e. none is the cursor
/// extended by a 0x00 byte (and more) or by exactly one 0x01 byte
pub open spec fn cursor_gap_free(kv: KV, ns: int, cursor: Option<Seq<u8>>) -> bool {
    match cursor {
        None => true,
        Some(c) => forall|i: int| 0 <= i < ns_keys(kv, ns).len() ==> lex_lt(c.push(1), #[trigger] ns_keys(kv, ns)[i]) == lex_lt(c, ns_keys(kv, ns)[i]),
    }
}
/// proved: keys without bytes 0x00/0x01 (denoms, bech32 addresses) leave no gap, whatever the cursor
pub proof fn lemma_printable_keys_leave_no_gap(kv: KV, ns: int, cursor: Option<Seq<u8>>)
    requires ns_keys_printable(kv, ns)
    ensures cursor_gap_free(kv, ns, cursor)
{
    if cursor is Some {
        assert forall|i: int| 0 <= i < ns_keys(kv, ns).len() implies lex_lt(cursor->Some_0.push(1), #[trigger] ns_keys(kv, ns)[i]) == lex_lt(cursor->Some_0, ns_keys(kv, ns)[i]) by {
            lemma_lex_push1(cursor->Some_0, ns_keys(kv, ns)[i]);
        }
    }
}
/// proved: starting the raw range exclusively at `cursor ++ [1]` lists exactly the keys after the cursor
pub proof fn lemma_cursor_plus_one_lists_the_keys_after_the_cursor(kv: KV, ns: int, c: Seq<u8>, b: Vec<u8>, limit: int)
    requires cursor_gap_free(kv, ns, Some(c)), b@ == c.push(1)
    ensures range_keys(kv, ns, Some(Bound::ExclusiveRaw(b)), 0, limit) == first_n(keys_after(kv, ns, Some(c)), limit)
{
    let all = ns_keys(kv, ns);
    let p = |k: Seq<u8>| bound_admits(Some(Bound::ExclusiveRaw(b)), k);
    let q = |k: Seq<u8>| lex_lt(c, k);
    assert forall|i: int| 0 <= i < all.len() implies p(#[trigger] all[i]) == q(all[i]) by { }
    lemma_filter_ext(all, p, q);
}
/// proved: with the cursor on the j-th registered key, the keys after it are the listing from position j+1 on
pub proof fn lemma_keys_after_a_registered_key(kv: KV, ns: int, j: int)
    requires 0 <= j < ns_keys(kv, ns).len()
    ensures keys_after(kv, ns, Some(ns_keys(kv, ns)[j])) =~= ns_keys(kv, ns).skip(j + 1)
{
    broadcast use ax_ns_keys_sorted, group_lex;
    let all = ns_keys(kv, ns);
    let c = all[j];
    let q = |k: Seq<u8>| lex_lt(c, k);
    assert forall|i: int| 0 <= i <= j implies !q(#[trigger] all[i]) by { if i < j { ax_ns_keys_sorted(kv, ns, i, j); } }
    assert forall|i: int| j < i < all.len() implies q(#[trigger] all[i]) by { ax_ns_keys_sorted(kv, ns, j, i); }
    lemma_filter_suffix(all, q, j);
}
/// walking a listing page by page: the page that starts at position j holds the next `min(n, rest)` entries
pub open spec fn page_at<T>(all: Seq<T>, j: int, n: int) -> Seq<T> { first_n(all.skip(j), n) }
pub open spec fn walk<T>(all: Seq<T>, j: int, n: int) -> Seq<T> decreases all.len() - j {
    if j >= all.len() || n <= 0 || j < 0 { Seq::empty() } else { page_at(all, j, n) + walk(all, j + page_at(all, j, n).len(), n) }
}
/// proved: the pages, each resumed right after the last entry of the previous one, concatenate to the whole listing — every entry exactly once
pub proof fn lemma_walk_lists_everything_once<T>(all: Seq<T>, j: int, n: int)
    requires 0 <= j <= all.len(), n >= 1
    ensures walk(all, j, n) =~= all.skip(j)
    decreases all.len() - j
{
    if j < all.len() {
        let pg = page_at(all, j, n);
        lemma_walk_lists_everything_once(all, j + pg.len(), n);
        assert(pg + all.skip(j + pg.len()) =~= all.skip(j));
    }
}
/// proved: a key that is not stored is on no page
pub proof fn lemma_absent_key_is_not_listed(kv: KV, ns: int, cursor: Option<Seq<u8>>, n: int, k: Seq<u8>)
    requires !kv.contains_key((ns, k))
    ensures !first_n(keys_after(kv, ns, cursor), n).contains(k)
{
    broadcast use ax_ns_keys_members, lemma_filter_members;
    let ka = keys_after(kv, ns, cursor);
    if first_n(ka, n).contains(k) {
        let i = choose|i: int| 0 <= i < first_n(ka, n).len() && first_n(ka, n)[i] == k;
        assert(ka[i] == k);
        assert(ka.contains(k));
        if cursor is Some { lemma_filter_members(ns_keys(kv, ns), |x: Seq<u8>| lex_lt(cursor->Some_0, x)); }
        assert(ns_keys(kv, ns).contains(k));
    }
}
/// C19, layer 2 (proved from the page contracts of the listing functions): on an unchanged registry, asking page after page with the last
/// key of the previous page as cursor walks the registry in key order without gap or repetition — `walk` is that client, and its pages
/// concatenate to the whole registry.
pub proof fn lemma_pagination_lists_every_entry_exactly_once(kv: KV, ns: int, j: int, n: int)
    requires 0 <= j < ns_keys(kv, ns).len(), n >= 1
    ensures
        // the page a cursor on the j-th entry gets is the page that starts at position j + 1
        first_n(keys_after(kv, ns, Some(ns_keys(kv, ns)[j])), n) =~= page_at(ns_keys(kv, ns), j + 1, n),
        // the first page starts at position 0
        first_n(keys_after(kv, ns, None), n) =~= page_at(ns_keys(kv, ns), 0, n),
        // and the pages walked that way are the registry, each entry once
        walk(ns_keys(kv, ns), 0, n) =~= ns_keys(kv, ns),
{
    lemma_keys_after_a_registered_key(kv, ns, j);
    lemma_walk_lists_everything_once(ns_keys(kv, ns), 0, n);
}
/// hint used by the listing functions: without a lower bound the range is the whole namespace
pub proof fn lemma_unbounded_range_is_the_whole_namespace(kv: KV, ns: int, limit: int)
    ensures range_keys(kv, ns, None, 0, limit) == first_n(keys_after(kv, ns, None), limit)
{
    lemma_filter_suffix(ns_keys(kv, ns), |k: Seq<u8>| bound_admits(None, k), -1);
    assert(ns_keys(kv, ns).skip(0) =~= ns_keys(kv, ns));
}
