// ---- arithmetic lemmas (verified, not trusted) ----
pub proof fn lemma_ratio_roundtrip(n: nat, d: nat)
    requires d > 0
    ensures (n * DEC / d) / DEC == n / d
{
    lemma_div_denominator((n * DEC) as int, d as int, DEC as int);
    lemma_div_multiples_vanish_quotient(DEC as int, n as int, d as int);
    assert(DEC * n == n * DEC) by(nonlinear_arith);
    assert(DEC * d == d * DEC) by(nonlinear_arith);
}
pub proof fn lemma_muldiv_le(a: nat, b: nat, c: nat)
    requires c > 0, b <= c
    ensures a * b / c <= a
{
    assert(a * b <= a * c) by(nonlinear_arith) requires b <= c;
    lemma_div_is_ordered((a * b) as int, (a * c) as int, c as int);
    lemma_div_multiples_vanish(a as int, c as int);
    assert(c * a == a * c) by(nonlinear_arith);
}
pub proof fn lemma_muldiv_lt(a: nat, b: nat, c: nat)
    requires c > 0, b < c, a > 0
    ensures a * b / c < a
{
    assert(a * b < a * c) by(nonlinear_arith) requires b < c, a > 0;
    lemma_div_by_multiple_is_strongly_ordered((a * b) as int, (a * c) as int, a as int, c as int);
    lemma_div_multiples_vanish(a as int, c as int);
    assert(c * a == a * c) by(nonlinear_arith);
}
pub proof fn lemma_div_mono(a: nat, b: nat, c: nat)
    requires c > 0, a <= b
    ensures a / c <= b / c
{
    lemma_div_is_ordered(a as int, b as int, c as int);
}
pub proof fn lemma_pow()
    ensures POW128 * POW128 == pow256(), POW128 * DEC < pow256(), POW128 < pow256(), DEC < POW128,
            pow256() == 0x1_0000_0000_0000_0000_0000_0000_0000_0000nat * 0x1_0000_0000_0000_0000_0000_0000_0000_0000nat,
{
    assert(POW128 * DEC < POW128 * POW128) by(nonlinear_arith) requires DEC < POW128, POW128 > 0;
    assert(POW128 < POW128 * POW128) by(nonlinear_arith) requires POW128 > 1;
}
pub proof fn lemma_mul_lt_pow256(a: nat, b: nat)
    requires a < POW128, b < POW128
    ensures a * b < pow256()
{
    assert(a * b < POW128 * POW128) by(nonlinear_arith) requires a < POW128, b < POW128;
}
/// floor(x/D)+floor(y/D)+floor(z/D) <= g when x=g*s1.. and s1+s2+s3 <= D
pub proof fn lemma_fee_sum(g: nat, s1: nat, s2: nat, s3: nat)
    requires s1 + s2 + s3 <= DEC
    ensures (g * s1 / DEC) + (g * s2 / DEC) + (g * s3 / DEC) <= g, g * s1 / DEC <= g, (g * s1 / DEC) + (g * s2 / DEC) <= g
{
    let x = g * s1; let y = g * s2; let z = g * s3;
    lemma_fundamental_div_mod(x as int, DEC as int);
    lemma_fundamental_div_mod(y as int, DEC as int);
    lemma_fundamental_div_mod(z as int, DEC as int);
    let q = x / DEC + y / DEC + z / DEC;
    assert(DEC * q <= x + y + z) by(nonlinear_arith)
        requires x == DEC * (x / DEC) + x % DEC, y == DEC * (y / DEC) + y % DEC, z == DEC * (z / DEC) + z % DEC,
                 x % DEC >= 0, y % DEC >= 0, z % DEC >= 0, q == x / DEC + y / DEC + z / DEC;
    assert(x + y + z == g * (s1 + s2 + s3)) by(nonlinear_arith) requires x == g * s1, y == g * s2, z == g * s3;
    assert(g * (s1 + s2 + s3) <= g * DEC) by(nonlinear_arith) requires s1 + s2 + s3 <= DEC;
    assert(DEC * q <= DEC * g) by(nonlinear_arith) requires DEC * q <= g * DEC;
    assert(q <= g) by(nonlinear_arith) requires DEC * q <= DEC * g, DEC > 0;
}
pub proof fn lemma_div_bound(n: nat, d: nat) requires d > 0 ensures n / d <= n
{
    lemma_div_is_ordered_by_denominator(n as int, 1, d as int);
    lemma_div_basics(n as int);
}
pub proof fn lemma_ratio_le_one(a: nat, s: nat)
    requires s > 0, a <= s
    ensures a * DEC / s <= DEC, a * DEC / s < POW128,
            forall|b: nat| b < POW128 ==> #[trigger] ((a * DEC / s) * b) / DEC <= b
{
    lemma_muldiv_le(DEC, a, s);
    assert(a * DEC == DEC * a) by(nonlinear_arith);
    assert forall|b: nat| b < POW128 implies #[trigger] ((a * DEC / s) * b) / DEC <= b by {
        lemma_muldiv_le(b, a * DEC / s, DEC);
        assert(b * (a * DEC / s) == (a * DEC / s) * b) by(nonlinear_arith);
    }
}
