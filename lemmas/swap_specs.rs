// ---- shared specification vocabulary of the spread assertion ----
pub open spec fn eff_spread(max_spread: Option<Decimal>) -> nat {
    let m = if max_spread is Some { max_spread->Some_0@ } else { 10_000_000_000_000_000nat };
    if m <= 500_000_000_000_000_000nat { m } else { 500_000_000_000_000_000nat }
}
/// expected return for a belief price p (atomics): offer * floor(10^36/p) / 10^18
pub open spec fn expected_return(offer: nat, p: nat) -> nat { offer * (DEC * DEC / p) / DEC }


/// Decimal::from_ratio and Decimal * Decimal as the slippage check uses them
pub open spec fn ratio(n: nat, d: nat) -> nat { n * DEC / d }
pub open spec fn dmul(a: nat, b: nat) -> nat { a * b / DEC }
