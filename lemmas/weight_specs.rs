// ---- shared specification of the incentive position weight ----
pub spec const W_C1: nat = 109498841nat;
pub spec const W_C2: nat = 7791996353100889432894nat;
pub spec const W_C3: nat = 249042009202369nat;
pub spec const W_N: nat = 246210981355969nat;
pub spec const W_D: nat = 246918738317569nat;
/// the multiplier (18-decimal atomics) for an unbonding duration, with the code's floors
pub open spec fn w_mult(dur: nat) -> nat {
    let d = dur * DEC;
    let sq = d * d / DEC;
    let part = (sq * W_C1 / DEC) * DEC / W_C2;
    let next = (d * W_C3 / DEC) * DEC / W_C2;
    let fin = W_N * DEC / W_D;
    part + next + fin
}
pub open spec fn w_raw(dur: nat, amt: nat) -> nat { ((amt * DEC) * w_mult(dur) / DEC) / DEC }
pub open spec fn weight(dur: nat, amt: nat) -> nat { if w_raw(dur, amt) >= amt { w_raw(dur, amt) } else { amt } }
pub open spec fn dur_ok(dur: nat) -> bool { 86400 <= dur <= 31556926 }

pub proof fn lemma_w_mult_bound(dur: nat)
    requires dur_ok(dur)
    ensures w_mult(dur) <= 17 * DEC, (dur * DEC) * (dur * DEC) / DEC < pow256(),
            ((dur * DEC) * (dur * DEC) / DEC) * W_C1 / DEC < pow256(),
            (((dur * DEC) * (dur * DEC) / DEC) * W_C1 / DEC) * DEC / W_C2 <= 14 * DEC + DEC / 2,
            (dur * DEC) * W_C3 / DEC < pow256(),
            ((dur * DEC) * W_C3 / DEC) * DEC / W_C2 <= 2 * DEC,
            W_N * DEC / W_D < DEC,
            dur * DEC < pow256(),
{
    lemma_pow();
    let d = dur * DEC;
    assert(d <= 31556926 * DEC) by(nonlinear_arith) requires dur <= 31556926, d == dur * DEC;
    assert(d * d <= (31556926 * DEC) * (31556926 * DEC)) by(nonlinear_arith) requires d <= 31556926 * DEC;
    lemma_div_is_ordered((d * d) as int, ((31556926 * DEC) * (31556926 * DEC)) as int, DEC as int);
    let sq = d * d / DEC;
    assert(((31556926 * DEC) * (31556926 * DEC)) / DEC == 995839578569476000000000000000000nat) by(compute);
    assert(sq <= 995839578569476000000000000000000nat);
    assert(sq * W_C1 <= 995839578569476000000000000000000nat * W_C1) by(nonlinear_arith) requires sq <= 995839578569476000000000000000000nat;
    lemma_div_is_ordered((sq * W_C1) as int, (995839578569476000000000000000000nat * W_C1) as int, DEC as int);
    let m = sq * W_C1 / DEC;
    assert(995839578569476000000000000000000nat * W_C1 / DEC == 109043279675286059977316nat) by(compute);
    assert(m * DEC <= 109043279675286059977316nat * DEC) by(nonlinear_arith) requires m <= 109043279675286059977316nat;
    lemma_div_is_ordered((m * DEC) as int, (109043279675286059977316nat * DEC) as int, W_C2 as int);
    assert(109043279675286059977316nat * DEC / W_C2 <= 14 * DEC + DEC / 2) by(compute);
    assert(d * W_C3 <= (31556926 * DEC) * W_C3) by(nonlinear_arith) requires d <= 31556926 * DEC;
    lemma_div_is_ordered((d * W_C3) as int, ((31556926 * DEC) * W_C3) as int, DEC as int);
    let n1 = d * W_C3 / DEC;
    assert((31556926 * DEC) * W_C3 / DEC == 7859000255290477557694nat) by(compute);
    assert(n1 * DEC <= 7859000255290477557694nat * DEC) by(nonlinear_arith) requires n1 <= 7859000255290477557694nat;
    lemma_div_is_ordered((n1 * DEC) as int, (7859000255290477557694nat * DEC) as int, W_C2 as int);
    assert(7859000255290477557694nat * DEC / W_C2 <= 2 * DEC) by(compute);
    assert(W_N * DEC / W_D < DEC) by(compute);
    assert(pow256() > 0x1_0000_0000_0000_0000_0000_0000_0000_0000nat);
}

