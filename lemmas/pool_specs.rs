// ---- shared specification vocabulary of the pool contracts (pair, 3pool): ledgers, transfers, balances ----
pub open spec fn info_id(i: AssetInfo) -> Seq<char> {
    match i { AssetInfo::Token { contract_addr } => contract_addr@, AssetInfo::NativeToken { denom } => denom@ }
}
/// ledger after charging `fee` to every entry whose id is `id` (there is exactly one per pool asset)
pub open spec fn ledger_charged(l: Seq<Asset>, id: Seq<char>, fee: nat) -> Seq<Asset> {
    Seq::new(l.len(), |i: int| if info_id(l[i].info) == id { Asset { info: l[i].info, amount: uint128(l[i].amount@ + fee) } } else { l[i] })
}
pub open spec fn ledger_no_overflow(l: Seq<Asset>, id: Seq<char>, fee: nat) -> bool {
    forall|i: int| 0 <= i < l.len() && info_id(l[i].info) == id ==> #[trigger] l[i].amount@ + fee < POW128
}
pub open spec fn token_transfer_msg(token: Seq<char>, to: String, amount: Uint128) -> MsgV {
    MsgV::Execute { contract: token, msg: ser(Cw20ExecuteMsg::Transfer { recipient: to, amount }), funds: no_coins() }
}
pub open spec fn pay_msg_of(a: Asset, to: Addr) -> MsgV {
    match a.info {
        AssetInfo::Token { contract_addr } => token_transfer_msg(contract_addr@, to.s, a.amount),
        AssetInfo::NativeToken { denom } => MsgV::BankSend { to: to.s@, coins: seq![(denom@, a.amount@)] },
    }
}
/// the transfers that account for the decrease of the pending ledger from `l` to `l1`, entry by entry, in ledger order
pub open spec fn collect_msgs_for(l: Seq<Asset>, l1: Seq<Asset>, to: Addr, upto: int) -> Seq<MsgV> decreases upto {
    if upto <= 0 { Seq::empty() } else {
        let rest = collect_msgs_for(l, l1, to, upto - 1);
        let k = upto - 1;
        if l1[k].amount@ != l[k].amount@ {
            rest.push(pay_msg_of(Asset { info: l[k].info, amount: uint128((l[k].amount@ - l1[k].amount@) as nat) }, to))
        } else { rest }
    }
}
pub proof fn lemma_collect_prefix(l: Seq<Asset>, a: Seq<Asset>, b: Seq<Asset>, to: Addr, upto: int)
    requires forall|j: int| 0 <= j < upto ==> a[j] == b[j]
    ensures collect_msgs_for(l, a, to, upto) == collect_msgs_for(l, b, to, upto)
    decreases upto
{ if upto > 0 { lemma_collect_prefix(l, a, b, to, upto - 1); } }
pub open spec fn burn_msg_of(a: Asset) -> MsgV {
    match a.info {
        AssetInfo::Token { contract_addr } => MsgV::Execute { contract: contract_addr@, msg: ser(Cw20ExecuteMsg::Burn { amount: a.amount }), funds: no_coins() },
        AssetInfo::NativeToken { denom } => MsgV::BankBurn { coins: seq![(denom@, a.amount@)] },
    }
}
pub open spec fn first_coin(funds: Seq<Coin>, denom: Seq<char>) -> Option<Coin> decreases funds.len() {
    if funds.len() == 0 { None } else if funds[0].denom@ == denom { Some(funds[0]) } else { first_coin(funds.drop_first(), denom) }
}
pub open spec fn native_sent_ok(a: Asset, funds: Seq<Coin>) -> bool {
    match a.info {
        AssetInfo::NativeToken { denom } => match first_coin(funds, denom@) { Some(c) => a.amount == c.amount, None => a.amount@ == 0 },
        AssetInfo::Token { .. } => true,
    }
}
/// amount of the first ledger entry with this id (0 when there is none)
pub open spec fn ledger_amount(l: Seq<Asset>, id: Seq<char>) -> nat decreases l.len() {
    if l.len() == 0 { 0 } else if info_id(l[0].info) == id { l[0].amount@ } else { ledger_amount(l.drop_first(), id) }
}
/// what the balance query of asset `i` for address `who` returns (None if the query fails)
pub open spec fn asset_balance(q: QuerierWrapper, i: AssetInfo, who: Addr) -> Option<nat> {
    match i {
        AssetInfo::NativeToken { denom } => match bank_answer(q, who.s@, denom@) { Ok(c) => Some(c.amount@), Err(_) => None },
        AssetInfo::Token { contract_addr } => match cw20_balance(q, contract_addr@, who.s) { Ok(b) => Some(b.balance@), Err(_) => None },
    }
}
pub open spec fn same_asset(a: AssetInfo, b: AssetInfo) -> bool { (a is Token) == (b is Token) && info_id(a) == info_id(b) }
/// first_coin / ledger_amount characterised by position (used by the D17 loop invariants of the real lookups)
pub proof fn lemma_first_coin_at(funds: Seq<Coin>, denom: Seq<char>, i: int)
    requires 0 <= i < funds.len(), funds[i].denom@ == denom, forall|j: int| 0 <= j < i ==> (#[trigger] funds[j]).denom@ != denom
    ensures first_coin(funds, denom) == Some(funds[i])
    decreases i
{
    if i > 0 {
        let t = funds.drop_first();
        assert(funds[0].denom@ != denom);
        assert forall|j: int| 0 <= j < i - 1 implies (#[trigger] t[j]).denom@ != denom by { assert(t[j] == funds[j + 1]); }
        assert(t[i - 1] == funds[i]);
        lemma_first_coin_at(t, denom, i - 1);
    }
}
pub proof fn lemma_first_coin_none(funds: Seq<Coin>, denom: Seq<char>)
    requires forall|j: int| 0 <= j < funds.len() ==> (#[trigger] funds[j]).denom@ != denom
    ensures first_coin(funds, denom) is None
    decreases funds.len()
{
    if funds.len() > 0 {
        let t = funds.drop_first();
        assert(funds[0].denom@ != denom);
        assert forall|j: int| 0 <= j < t.len() implies (#[trigger] t[j]).denom@ != denom by { assert(t[j] == funds[j + 1]); }
        lemma_first_coin_none(t, denom);
    }
}
pub proof fn lemma_ledger_amount_at(l: Seq<Asset>, id: Seq<char>, i: int)
    requires 0 <= i < l.len(), info_id(l[i].info) == id, forall|j: int| 0 <= j < i ==> info_id((#[trigger] l[j]).info) != id
    ensures ledger_amount(l, id) == l[i].amount@
    decreases i
{
    if i > 0 {
        let t = l.drop_first();
        assert(info_id(l[0].info) != id);
        assert forall|j: int| 0 <= j < i - 1 implies info_id((#[trigger] t[j]).info) != id by { assert(t[j] == l[j + 1]); }
        assert(t[i - 1] == l[i]);
        lemma_ledger_amount_at(t, id, i - 1);
    }
}
pub proof fn lemma_ledger_amount_none(l: Seq<Asset>, id: Seq<char>)
    requires forall|j: int| 0 <= j < l.len() ==> info_id((#[trigger] l[j]).info) != id
    ensures ledger_amount(l, id) == 0
    decreases l.len()
{
    if l.len() > 0 {
        let t = l.drop_first();
        assert(info_id(l[0].info) != id);
        assert forall|j: int| 0 <= j < t.len() implies info_id((#[trigger] t[j]).info) != id by { assert(t[j] == l[j + 1]); }
        lemma_ledger_amount_none(t, id);
    }
}
