// ---- shared specification vocabulary of the 3pool curve (needs the extracted StableSwap struct) ----
/// linear interpolation of the amplification coefficient, exactly as the property states it
pub open spec fn amp_at(init: nat, target: nat, now: nat, start: nat, stop: nat) -> Option<nat> {
    if now >= stop { Some(target) }
    else if now < start { None }
    else if target >= init { Some(init + ((target - init) as nat) * ((now - start) as nat) / ((stop - start) as nat)) }
    else { Some((init - ((init - target) as nat) * ((now - start) as nat) / ((stop - start) as nat)) as nat) }
}
// ---- the two Newton solvers of the 3pool, DEFINED as the iterations the code documents (they were uninterpreted before) ----
// `*_fits` predicates spell out, step by step, the region in which no 128/256-bit intermediate overflows and no division by zero occurs;
// outside it the real code ABORTS on an `unwrap` (the transaction reverts). That the iterations CONVERGE to the root of the invariant is
// outside SMT reach (C04 not_covered).
pub open spec fn t_close(x: nat, y: nat) -> bool { if x > y { x - y <= 1 } else { y - x <= 1 } }
/// amplification values for which a Newton step for D is defined (ann = 3*amp fits u64 and ann - 1 does not underflow)
pub open spec fn trio_amp_ok(amp: u64) -> bool { 1 <= amp && amp as nat * 3 <= u64::MAX }
/// d' = (ann*S + d_prod*n) * d / ((ann - 1) * d + (n + 1) * d_prod),  n = 3, ann = 3*amp, rounded down
pub open spec fn trio_next_d(amp: u64, d: nat, dp: nat, sum: nat) -> nat {
    (d * (dp * 3 + sum * (amp as nat * 3))) / (d * ((amp as nat * 3 - 1) as nat) + dp * 4)
}
pub open spec fn trio_next_d_fits(amp: u64, d: nat, dp: nat, sum: nat) -> bool {
    &&& trio_amp_ok(amp)
    &&& dp * 3 + sum * (amp as nat * 3) < pow256()
    &&& d * (dp * 3 + sum * (amp as nat * 3)) < pow256()
    &&& d * ((amp as nat * 3 - 1) as nat) + dp * 4 < pow256()
    &&& d * ((amp as nat * 3 - 1) as nat) + dp * 4 > 0
}
/// d_prod = D^4 / (27 a b c), floored after each factor as the code does
pub open spec fn trio_d_prod(d: nat, a3: nat, b3: nat, c3: nat) -> nat { ((d * d / a3) * d / b3) * d / c3 }
pub open spec fn trio_d_step_fits(amp: u64, a3: nat, b3: nat, c3: nat, sum: nat, d: nat) -> bool {
    &&& d * d < pow256()
    &&& (d * d / a3) * d < pow256()
    &&& ((d * d / a3) * d / b3) * d < pow256()
    &&& trio_next_d_fits(amp, d, trio_d_prod(d, a3, b3, c3), sum)
}
/// the iteration from `d`: up to `k` further steps, stopping as soon as two successive iterates differ by at most 1
pub open spec fn trio_d_iter(amp: u64, a3: nat, b3: nat, c3: nat, sum: nat, d: nat, k: nat) -> nat decreases k {
    if k == 0 { d } else {
        let dn = trio_next_d(amp, d, trio_d_prod(d, a3, b3, c3), sum);
        if t_close(dn, d) { dn } else { trio_d_iter(amp, a3, b3, c3, sum, dn, (k - 1) as nat) }
    }
}
pub open spec fn trio_d_iter_fits(amp: u64, a3: nat, b3: nat, c3: nat, sum: nat, d: nat, k: nat) -> bool decreases k {
    if k == 0 { true } else {
        let dn = trio_next_d(amp, d, trio_d_prod(d, a3, b3, c3), sum);
        trio_d_step_fits(amp, a3, b3, c3, sum, d) && (t_close(dn, d) || trio_d_iter_fits(amp, a3, b3, c3, sum, dn, (k - 1) as nat))
    }
}
/// the invariant D of raw reserves (a, b, c): 0 for an empty pool; none while the amplification ramp has not started; else the Newton
/// iteration from a + b + c, for up to 256 steps
#[verifier::opaque]
pub open spec fn trio_d(s: StableSwap, a: nat, b: nat, c: nat) -> Option<nat> {
    if a + b + c == 0 { Some(0) } else {
        match amp_at(s.initial_amp_factor as nat, s.target_amp_factor as nat, s.current_ts as nat, s.start_ramp_ts as nat, s.stop_ramp_ts as nat) {
            None => None,
            Some(amp) => Some(trio_d_iter(amp as u64, 3 * a, 3 * b, 3 * c, a + b + c, a + b + c, 256)),
        }
    }
}
/// compute_d returns (does not abort) exactly here
#[verifier::opaque]
pub open spec fn trio_d_fits(s: StableSwap, a: nat, b: nat, c: nat) -> bool {
    &&& a + b + c < POW128
    &&& (a + b + c > 0 ==> (amp_at(s.initial_amp_factor as nat, s.target_amp_factor as nat, s.current_ts as nat, s.start_ramp_ts as nat, s.stop_ramp_ts as nat) matches Some(amp) ==> {
            &&& amp <= u64::MAX
            &&& 3 * a < POW128 && 3 * b < POW128 && 3 * c < POW128 && a > 0 && b > 0 && c > 0
            &&& trio_d_iter_fits(amp as u64, 3 * a, 3 * b, 3 * c, a + b + c, a + b + c, 256)
        }))
}
/// y' = (y^2 + c) / (2y + b - D)
pub open spec fn trio_y_step(y: nat, c: nat, b: nat, d: nat) -> nat { (y * y + c) / ((2 * y + b - d) as nat) }
pub open spec fn trio_y_step_fits(y: nat, c: nat, b: nat, d: nat) -> bool {
    y * y + c < pow256() && 2 * y + b < pow256() && 2 * y + b > d
}
pub open spec fn trio_y_iter(y: nat, c: nat, b: nat, d: nat, k: nat) -> nat decreases k {
    if k == 0 { y } else {
        let yn = trio_y_step(y, c, b, d);
        if t_close(yn, y) { yn } else { trio_y_iter(yn, c, b, d, (k - 1) as nat) }
    }
}
pub open spec fn trio_y_iter_fits(y: nat, c: nat, b: nat, d: nat, k: nat) -> bool decreases k {
    if k == 0 { true } else {
        let yn = trio_y_step(y, c, b, d);
        trio_y_step_fits(y, c, b, d) && (t_close(yn, y) || trio_y_iter_fits(yn, c, b, d, (k - 1) as nat))
    }
}
/// c = D^4 / (27 x z * 3 ann) floored after each factor,  b = D/ann + x + z   (x: the offered side's new reserve, z: the untouched reserve)
pub open spec fn trio_y_c(x: nat, z: nat, d: nat, ann: nat) -> nat { ((d * d / (3 * x)) * d / (3 * z)) * d / (ann * 3) }
pub open spec fn trio_y_b(x: nat, z: nat, d: nat, ann: nat) -> nat { d / ann + x + z }
/// the new reserve of the asked side: none while the ramp has not started or when 3*amp leaves u64; else the Newton iteration for
/// y^2 + b*y = c from y = D, for up to 1000 steps
#[verifier::opaque]
pub open spec fn trio_y(s: StableSwap, x: nat, no_swap: nat, d: nat) -> Option<nat> {
    match amp_at(s.initial_amp_factor as nat, s.target_amp_factor as nat, s.current_ts as nat, s.start_ramp_ts as nat, s.stop_ramp_ts as nat) {
        None => None,
        Some(amp) => if amp * 3 > u64::MAX { None } else {
            Some(trio_y_iter(d, trio_y_c(x, no_swap, d, amp * 3), trio_y_b(x, no_swap, d, amp * 3), d, 1000)) },
    }
}
/// compute_y_raw returns (does not abort) exactly here
#[verifier::opaque]
pub open spec fn trio_y_fits(s: StableSwap, x: nat, z: nat, d: nat) -> bool {
    amp_at(s.initial_amp_factor as nat, s.target_amp_factor as nat, s.current_ts as nat, s.start_ramp_ts as nat, s.stop_ramp_ts as nat) matches Some(amp) ==>
        (amp * 3 <= u64::MAX ==> {
            let ann = amp * 3;
            &&& amp >= 1 && ann * 3 <= u64::MAX
            &&& 3 * x < POW128 && 3 * z < POW128 && x > 0 && z > 0
            &&& d * d < pow256() && (d * d / (3 * x)) * d < pow256() && ((d * d / (3 * x)) * d / (3 * z)) * d < pow256()
            &&& trio_y_b(x, z, d, ann) < pow256()
            &&& trio_y_iter_fits(d, trio_y_c(x, z, d, ann), trio_y_b(x, z, d, ann), d, 1000)
        })
}
/// preconditions under which swap_to does not abort (they restate the solver assumptions; an abort reverts the transaction)
pub open spec fn swap_to_ok(s: StableSwap, amount: nat, src: nat, dest: nat, unsw: nat) -> bool {
    &&& src + amount < POW128
    &&& trio_d_fits(s, src, dest, unsw)
    &&& (trio_d(s, src, dest, unsw) matches Some(d) ==> d < pow256() ==> trio_y_fits(s, src + amount, unsw, d))
    &&& trio_d(s, src, dest, unsw) is Some
    &&& trio_d(s, src, dest, unsw)->Some_0 < pow256()
    &&& (trio_y(s, src + amount, unsw, trio_d(s, src, dest, unsw)->Some_0) matches Some(y) ==> y + 1 <= dest)
}
pub open spec fn mint_ok(s: StableSwap, da: nat, db: nat, dc: nat, a: nat, b: nat, c: nat, supply: nat) -> bool {
    &&& a + da < POW128 && b + db < POW128 && c + dc < POW128
    &&& trio_d_fits(s, a, b, c)
    &&& (trio_d(s, a, b, c) is Some ==> trio_d_fits(s, a + da, b + db, c + dc))
    &&& (trio_d(s, a, b, c) matches Some(d0) ==> (trio_d(s, a + da, b + db, c + dc) matches Some(d1) ==>
            (d1 > d0 ==> d0 > 0 && supply * (d1 - d0) < pow256() && supply * ((d1 - d0) as nat) / d0 < POW128)))
}
