// ---- shared specification vocabulary of the 3pool curve (needs the extracted StableSwap struct) ----
/// linear interpolation of the amplification coefficient, exactly as the property states it
pub open spec fn amp_at(init: nat, target: nat, now: nat, start: nat, stop: nat) -> Option<nat> {
    if now >= stop { Some(target) }
    else if now < start { None }
    else if target >= init { Some(init + ((target - init) as nat) * ((now - start) as nat) / ((stop - start) as nat)) }
    else { Some((init - ((init - target) as nat) * ((now - start) as nat) / ((stop - start) as nat)) as nat) }
}
pub uninterp spec fn trio_d(s: StableSwap, a: nat, b: nat, c: nat) -> Option<nat>;
pub uninterp spec fn trio_y(s: StableSwap, x: nat, no_swap: nat, d: nat) -> Option<nat>;
/// preconditions under which swap_to does not abort (they restate the solver assumptions; an abort reverts the transaction)
pub open spec fn swap_to_ok(s: StableSwap, amount: nat, src: nat, dest: nat, unsw: nat) -> bool {
    &&& src + amount < POW128
    &&& trio_d(s, src, dest, unsw) is Some
    &&& trio_d(s, src, dest, unsw)->Some_0 < pow256()
    &&& (trio_y(s, src + amount, unsw, trio_d(s, src, dest, unsw)->Some_0) matches Some(y) ==> y + 1 <= dest)
}
pub open spec fn mint_ok(s: StableSwap, da: nat, db: nat, dc: nat, a: nat, b: nat, c: nat, supply: nat) -> bool {
    &&& a + da < POW128 && b + db < POW128 && c + dc < POW128
    &&& (trio_d(s, a, b, c) matches Some(d0) ==> (trio_d(s, a + da, b + db, c + dc) matches Some(d1) ==>
            (d1 > d0 ==> d0 > 0 && supply * (d1 - d0) < pow256() && supply * ((d1 - d0) as nat) / d0 < POW128)))
}
