// ---- shared specification vocabulary of the pair swap arithmetic (spec fns + verified lemmas) ----
// ---------------- specification vocabulary ----------------
// (opaque so that the handler queries stay linear; the lemmas below reveal them)
#[verifier::opaque] pub open spec fn gross(op: nat, ask: nat, offer: nat) -> nat { ask * offer / (op + offer) }
#[verifier::opaque] pub open spec fn fee(s: nat, x: nat) -> nat { x * s / DEC }
#[verifier::opaque] pub open spec fn offer_at_rate(op: nat, ask: nat, offer: nat) -> nat { offer * (ask * DEC / op) / DEC }
pub proof fn lemma_fee_facts(g: nat, s1: nat, s2: nat, s3: nat)
    requires s1 + s2 + s3 <= DEC
    ensures fee(s1, g) + fee(s2, g) + fee(s3, g) <= g, fee(s1, g) <= g, fee(s2, g) <= g, fee(s3, g) <= g,
            fee(s1, g) + fee(s2, g) <= g,
            fee(s1, g) == g * s1 / DEC, fee(s2, g) == g * s2 / DEC, fee(s3, g) == g * s3 / DEC,
{
    reveal(fee);
    lemma_fee_sum(g, s1, s2, s3);
    lemma_muldiv_le(g, s1, DEC); lemma_muldiv_le(g, s2, DEC); lemma_muldiv_le(g, s3, DEC);
}
/// PoolFee::is_valid's Ok-condition (proved below to be exactly that)
pub open spec fn wf_fees(f: PoolFee) -> bool {
    f.protocol_fee.share@ < DEC && f.swap_fee.share@ < DEC && f.burn_fee.share@ < DEC
    && f.protocol_fee.share@ + f.swap_fee.share@ + f.burn_fee.share@ < DEC
}

pub proof fn lemma_swap_ranges(op: nat, ask: nat, offer: nat)
    requires 1 <= op < POW128, 1 <= ask < POW128, 1 <= offer < POW128
    ensures
        ask * offer < pow256(),
        op + offer < pow256(),
        (ask * offer) * DEC / (op + offer) <= ask * DEC,
        (ask * offer) * DEC / (op + offer) < pow256(),
        ask * DEC < pow256(),
        1 * ((ask * offer) * DEC / (op + offer)) / DEC == gross(op, ask, offer),
        gross(op, ask, offer) < ask,
        ask * DEC / op <= ask * DEC,
        ask * DEC / op < pow256(),
        offer * (ask * DEC / op) / DEC == offer_at_rate(op, ask, offer),
        offer_at_rate(op, ask, offer) <= ask * offer,
        offer_at_rate(op, ask, offer) < pow256(),
{
    reveal(gross); reveal(offer_at_rate);
    lemma_pow();
    assert(ask * offer < POW128 * POW128) by(nonlinear_arith) requires ask < POW128, offer < POW128;
    assert(ask * DEC < POW128 * DEC) by(nonlinear_arith) requires ask < POW128, DEC > 0;
    assert((ask * offer) * DEC == (ask * DEC) * offer) by(nonlinear_arith);
    lemma_muldiv_le(ask * DEC, offer, op + offer);
    lemma_ratio_roundtrip(ask * offer, op + offer);
    assert(ask * offer < ask * (op + offer)) by(nonlinear_arith) requires ask >= 1, op >= 1;
    lemma_div_by_multiple_is_strongly_ordered((ask * offer) as int, (ask * (op + offer)) as int, ask as int, (op + offer) as int);
    lemma_div_multiples_vanish(ask as int, (op + offer) as int);
    assert((op + offer) * ask == ask * (op + offer)) by(nonlinear_arith);
    lemma_muldiv_le(ask * DEC, 1, op);
    assert(ask * DEC * 1 == ask * DEC);
    let rate = ask * DEC / op;
    assert(offer * rate <= offer * (ask * DEC)) by(nonlinear_arith) requires rate <= ask * DEC;
    assert(offer * (ask * DEC) == (ask * offer) * DEC) by(nonlinear_arith);
    lemma_div_is_ordered((offer * rate) as int, ((ask * offer) * DEC) as int, DEC as int);
    lemma_div_multiples_vanish((ask * offer) as int, DEC as int);
    assert(DEC * (ask * offer) == (ask * offer) * DEC) by(nonlinear_arith);
}


pub proof fn lemma_p10(k: nat) ensures p10(k) > 0, k <= 18 ==> p10(k) <= DEC
    decreases k
{
    assert(p10(18) == DEC) by(compute);
    if k > 0 { lemma_p10((k - 1) as nat); }
    if k <= 18 { lemma_p10_mono(k, 18); }
}
pub proof fn lemma_p10_mono(a: nat, b: nat) requires a <= b ensures p10(a) <= p10(b), p10(a) > 0 decreases b
{
    if a == 0 && b == 0 { } else if a < b { lemma_p10_mono(a, (b - 1) as nat); } else { if a > 0 { lemma_p10_mono((a-1) as nat, (b-1) as nat); } }
}

// ---- the decimal D of the two reserves (18-digit fixed point), DEFINED as the Newton scheme calculate_stableswap_d documents ----
// (it was an uninterpreted function before). All quantities are Decimal256 atomics; a product of two decimals is a*b/10^18 rounded down,
// a quotient a*10^18/b rounded down, exactly as cosmwasm-std computes them. Where a checked operation of the real code fails the function
// returns Err and the clause (r is Ok ==> ...) says nothing: the swap is rejected.
pub open spec fn fxmul(a: nat, b: nat) -> nat { a * b / DEC }
pub open spec fn fxdiv(a: nat, b: nat) -> nat { a * DEC / b }
/// D_P = D * D/(2x) * D/(2y), each factor by multiply_ratio on the atomics
pub open spec fn dd_prod(x: nat, y: nat, d: nat) -> nat { (d * d / fxmul(x, 2 * DEC)) * d / fxmul(y, 2 * DEC) }
/// d' = ((ann * S + D_P * n) * d) / ((ann - 1) * d + (n + 1) * D_P),   n = 2
pub open spec fn dd_next(x: nat, y: nat, sum: nat, ann: nat, d: nat) -> nat {
    let dp = dd_prod(x, y, d);
    fxdiv(fxmul(fxmul(ann, sum) + fxmul(dp, 2 * DEC), d), fxmul((ann - DEC) as nat, d) + fxmul(3 * DEC, dp))
}
/// the iteration from `d`: up to `k` further steps; it ends with the first iterate that differs from its predecessor by at most `tol`
/// (one unit of the given precision); None when the steps run out (ConvergeError)
pub open spec fn dd_iter(x: nat, y: nat, sum: nat, ann: nat, tol: nat, d: nat, k: nat) -> Option<nat> decreases k {
    if k == 0 { None } else {
        let dn = dd_next(x, y, sum, ann, d);
        if (dn >= d && dn - d <= tol) || (dn < d && d - dn <= tol) { Some(dn) } else { dd_iter(x, y, sum, ann, tol, dn, (k - 1) as nat) }
    }
}
/// D as calculate_stableswap_d returns it when it returns: 0 for an empty pool, else the iteration from x + y, for at most 32 steps
#[verifier::opaque]
pub open spec fn ss_dd(offer_pool: nat, ask_pool: nat, amp: u64, precision: u8) -> nat {
    if offer_pool + ask_pool == 0 { 0 } else {
        dd_iter(offer_pool, ask_pool, offer_pool + ask_pool, (amp as nat * 2) * DEC, p10((18 - precision) as nat), offer_pool + ask_pool, 32)->Some_0
    }
}
/// one Newton step for y; None where the checked arithmetic of the real code fails (the swap is rejected)
pub open spec fn y_step(y: nat, c: nat, b: nat, d: nat) -> Option<nat> {
    if y * y >= pow256() || y * y + c >= pow256() || y + y >= pow256() || y + y + b >= pow256() || y + y + b < d || y + y + b - d == 0 { None }
    else { Some((y * y + c) / ((y + y + b - d) as nat)) }
}
/// the iteration from `y`: up to `k` further steps, stopping as soon as two successive iterates differ by at most 1; None on an arithmetic
/// failure or when the steps run out (ConvergeError)
pub open spec fn y_iter(y: nat, c: nat, b: nat, d: nat, k: nat) -> Option<nat> decreases k {
    if k == 0 { None } else {
        match y_step(y, c, b, d) {
            None => None,
            Some(yn) => if (yn >= y && yn - y <= 1) || (yn < y && y - yn <= 1) { Some(yn) } else { y_iter(yn, c, b, d, (k - 1) as nat) },
        }
    }
}
/// what the ask reserve becomes when `offer_amount` joins the offer reserve (all in 18-digit fixed point), in units of 10^-ask_precision:
/// the y that the documented Newton scheme yields from y = D (c = D^3/(4 x' Ann) floored as (D*D/(2x'))*D/(2 Ann), b = x' + D/Ann,
/// y <- (y^2 + c)/(2y + b - D), at most 32 steps). Its closeness to the true root of the invariant is NOT covered.
#[verifier::opaque]
pub open spec fn ss_y(offer_pool: nat, ask_pool: nat, offer_amount: nat, amp: u64, ask_precision: u8) -> nat {
    let unit = p10((18 - ask_precision) as nat);
    let ann = (amp as nat) * 2;
    let d = ss_dd(offer_pool, ask_pool, amp, ask_precision) / unit;
    let ps = (offer_pool + offer_amount) / unit;
    let c = (d * d / (ps * 2)) * d / (ann * 2);
    let b = ps + d / ann;
    y_iter(d, c, b, d, 32)->Some_0
}

pub open spec fn sat_sub(a: nat, b: nat) -> nat { if a >= b { (a - b) as nat } else { 0 } }
