"""Unit files (/verif/units/*.vu): directives + raw Verus text -> one assembled Verus file."""
import os, re, json, subprocess, time, hashlib, shlex
from . import extract as X
from .extract import Inconclusive, VERIF

IMPORTS = """use vstd::prelude::*;
use vstd::std_specs::ops::*;
use vstd::std_specs::cmp::*;
use vstd::std_specs::convert::*;
use vstd::arithmetic::div_mod::*;
use vstd::arithmetic::mul::*;
use vstd::arithmetic::power::*;
use std::ops::Mul;
use std::ops::Add;
use std::ops::Sub;
use std::ops::Div;
use core::marker::PhantomData;
use core::convert::TryFrom;
use core::convert::TryInto;
use core::cmp::Ordering;
use core::str::FromStr;
"""
HEADER = """#![feature(allocator_api)]
#![allow(unused_imports, unused_variables, unused_mut, dead_code, unused_parens, unused_braces, non_snake_case, unreachable_code, unused_assignments, non_camel_case_types, non_upper_case_globals)]
use vstd::prelude::*;
use vstd::std_specs::ops::*;
use vstd::std_specs::cmp::*;
use vstd::std_specs::convert::*;
use vstd::arithmetic::div_mod::*;
use vstd::arithmetic::mul::*;
use vstd::arithmetic::power::*;
use std::ops::Mul;
use std::ops::Add;
use std::ops::Sub;
use std::ops::Div;
use core::marker::PhantomData;
use core::convert::TryFrom;
use core::convert::TryInto;
use core::cmp::Ordering;
use core::str::FromStr;
verus! {
"""
FOOTER = "\n} // verus!\nfn main() {}\n"

DIRECTIVE = re.compile(r"^\s*//@(\w+)\s*(.*)$")


class Assembled:
    def __init__(self):
        self.lines = []          # output lines
        self.origin = []         # per line: (kind, info) kind in prelude/lemma/raw/extract/ann
        self.labels = {}         # line no (1-based) -> (fnqual, label)
        self.also = {}           # label -> [other properties that own the clause too]
        self.imports = []        # (unit, relpath, qual): contracts imported verbatim from the unit where they are proved
        self.skipped = []        # M4 segments whose anchors are lost on this tree (set aside; the run cannot end OK)
        self.fns = []            # dicts: qual, relpath, start, end (1-based lines), hash, mode, assumed
        self.rewrites = []
        self.trusted = []        # external_body / assume_specification / axioms found
        self.uses = []
        self.types = []
        self.aborts = {}         # fn qual -> property ids owning its abort-freedom obligations

    def emit(self, text, kind, info=None, lmap=None, relpath=None):
        ls = text.split("\n")
        if ls and ls[-1] == "":
            ls = ls[:-1]
        for i, l in enumerate(ls):
            self.lines.append(l)
            rl = lmap[i] if lmap and i < len(lmap) else None
            self.origin.append((kind, info, relpath, rl))

    def text(self):
        return "\n".join(self.lines) + "\n"


def parse_kv(rest):
    toks = shlex.split(rest)
    pos, kv = [], {}
    for t in toks:
        if "=" in t and not t.startswith("="):
            k, v = t.split("=", 1)
            kv[k] = v
        else:
            pos.append(t)
    return pos, kv


def import_contract(unit_file, relpath, qual):
    lines = open(unit_file).read().split("\n")
    req, ens, cur, buf, inside = "", [], None, [], False
    def close():
        nonlocal req, cur, buf
        if cur is None: return
        if cur[0] == "requires": req += "\n".join(buf) + "\n"
        elif cur[0] == "ensures": ens.append((cur[1], "\n".join(buf)))
        cur = None; buf = []
    for l in lines:
        m = DIRECTIVE.match(l)
        if m:
            d, rest = m.group(1), m.group(2).strip()
            if d == "fn":
                close()
                pos, kv = parse_kv(rest)
                inside = (pos[0] == relpath and pos[1] == qual and "xb" not in pos[2:] and "from" not in kv)
                continue
            if not inside: continue
            close()
            if d in ("requires", "ensures"): cur = (d, rest)
            elif d == "end": inside = False
            else: cur = ("other", rest)
        elif inside and cur is not None:
            buf.append(l)
    close()
    if not ens:
        raise Inconclusive(f"contract import: {relpath}::{qual} has no proved contract in {unit_file}")
    return req, ens


def assemble(unit_path, variant=None):
    """variant: None | ('vacuity', fnqual) | ('carve', {fnqual: region_text})"""
    A = Assembled()
    A.emit(HEADER, "header")
    with open(unit_path) as f:
        raw = f.read().split("\n")
    i = 0
    pending = None  # current extraction directive

    def flush():
        nonlocal pending
        if pending is None:
            return
        p = pending
        pending = None
        kind = p["kind"]
        if kind == "fn":
            ann = p["ann"]
            qual = p["qual"]
            cq = ann.get("seg_name") or ann.get("rename") or qual
            if variant and variant[0] == "carve" and cq in variant[1]:
                ann["requires"] = (ann.get("requires") or "") + "\n        !(" + variant[1][cq] + "),\n"
            if variant and variant[0] == "vacuity" and (variant[1] is None or variant[1] in (qual, cq)) and not ann.get("external_body"):
                ann["head"] = (ann.get("head") or "") + "\n    proof { /*@VAC*/ assert(false); }\n"
            if ann.get("seg_from"):
                try:
                    text, lmap, src, log, labels, it = X.extract_segment(p["relpath"], qual, ann)
                except X.Inconclusive as e:
                    # a statement range whose anchors are lost cannot be checked on this tree: it is set aside (recorded in A.skipped) and the
                    # rest of the unit is still verified. A violation found elsewhere is reported; without one the run ends INCONCLUSIVE.
                    A.skipped.append({"fn": ann.get("seg_name"), "file": p["relpath"], "reason": str(e)})
                    A.rewrites.append({"file": p["relpath"], "line": 0, "rule": "A0", "note": f"segment {ann.get('seg_name')} set aside: {e}"})
                    return
                qual = ann["seg_name"]
            else:
                try:
                    text, lmap, src, log, labels, it = X.extract_fn(p["relpath"], qual, ann)
                except X.Inconclusive as e:
                    # a HELPER under contract (flag `optional`) that no longer exists is skipped and logged: its callers are still verified,
                    # and cannot call it any more; the property-level clauses live on them
                    if ann.get("optional") and "not found" in str(e):
                        A.rewrites.append({"file": p["relpath"], "line": 0, "rule": "A0", "note": f"optional helper {qual} no longer exists: its contract is skipped"})
                        return
                    raise
            if "aborts" in p:
                A.aborts[qual] = p["aborts"]
            start = len(A.lines) + 1
            A.emit(text, "extract", qual, lmap, p["relpath"])
            end = len(A.lines)
            A.rewrites += log
            mode = "M4" if ann.get("seg_from") else "M3" if (ann.get("slice_k") is not None or ann.get("slice_before")) else ("M2" if (ann.get("replaces") or ann.get("maploops") or ann.get("forloops") or ann.get("anyloops") or ann.get("findloops") or ann.get("posloops") or ann.get("findmuts") or ann.get("findmutlets")) else "M1")
            if ann.get("imported_from"):
                mode = "ASSUMED"
                A.trusted.append(f"contract of {p['relpath']}::{qual} imported verbatim from unit {ann['imported_from']} where it is PROVED")
                A.imports.append((ann["imported_from"], p["relpath"], qual))
            elif ann.get("external_body"):
                mode = "ASSUMED"
                A.trusted.append(f"assumed contract (body not verified): {p['relpath']}::{qual}")
            A.fns.append({"qual": qual, "file": p["relpath"], "repo_line": X._srcline(src, it["span"][0]),
                          "start": start, "end": end, "mode": mode,
                          "hash": X.src_hash(p["relpath"], it["span"], src), "labels": labels,
                          "props": sorted({q.split(".")[0] for l in labels for q in l.split("+")})})
        elif kind in ("struct", "enum"):
            text, segs, src, log, it = X.extract_type(p["relpath"], p["qual"], p["opts"])
            A.emit(text, "extract-type", p["qual"], None, p["relpath"])
            A.rewrites += log
            A.types.append({"name": p["qual"], "file": p["relpath"], "hash": X.src_hash(p["relpath"], it["span"], src)})
        elif kind == "const":
            text, segs, src, log, it = X.extract_const(p["relpath"], p["qual"], p["opts"])
            A.emit(text, "extract-const", p["qual"], None, p["relpath"])
            A.rewrites += log
            A.types.append({"name": p["qual"], "file": p["relpath"], "hash": X.src_hash(p["relpath"], it["span"], src)})

    section = None
    secbuf = []
    pending_groups = []

    def flush_groups():
        if pending_groups:
            A.emit("broadcast use {" + ", ".join(pending_groups) + "};", "prelude", "broadcast groups")
            A.groups = list(pending_groups)
            A.emit("pub mod cosmwasm_std { pub use crate::*; }\npub mod cw20 { pub use crate::*; }\npub mod white_whale_std { pub use crate::*; pub mod pool_network { pub use crate::*; pub mod asset { pub use crate::*; } } }", "prelude", "path aliases")
            pending_groups.clear()

    def close_section():
        nonlocal section, secbuf
        if section is None or pending is None:
            section = None; secbuf = []
            return
        text = "\n".join(secbuf)
        ann = pending["ann"] if pending["kind"] == "fn" else None
        name, arg = section
        if name == "requires":
            ann["requires"] = (ann.get("requires") or "") + text
        elif name == "ensures":
            # `LABEL +C05+C06`: the clause is owned by the property of its label AND by the listed ones (their layer-2 argument rests on it)
            ann.setdefault("ensures", []).append((re.sub(r"\s+", "", arg), text))
        elif name == "closure":
            ann.setdefault("closures", {})[arg] = text
        elif name == "loop":
            ann.setdefault("loops", {})[arg] = text
        elif name == "maploop":
            ann.setdefault("maploops", {})[arg] = text
        elif name == "forloop":
            ann.setdefault("forloops", {})[arg] = text
        elif name == "anyloop":
            ann.setdefault("anyloops", {})[arg] = text
        elif name == "findloop":
            ann.setdefault("findloops", {})[arg] = text
        elif name == "posloop":
            ann.setdefault("posloops", {})[arg] = text
        elif name == "findmutletexit":
            ann.setdefault("findmutletexits", {})[arg] = text
        elif name == "findmutlet":
            ann.setdefault("findmutlets", {})[arg] = text
        elif name == "findmut":
            ann.setdefault("findmuts", {})[arg] = text
        elif name == "findmuthit":
            ann.setdefault("findmuthits", {})[arg] = text
        elif name == "findmutexit":
            ann.setdefault("findmutexits", {})[arg] = text
        elif name == "findhit":
            ann.setdefault("findhits", {})[arg] = text
        elif name == "findexit":
            ann.setdefault("findexits", {})[arg] = text
        elif name == "looptail":
            ann.setdefault("looptails", {})[arg] = text
        elif name == "loophead":
            ann.setdefault("loopheads", {})[arg] = text
        elif name == "head":
            ann["head"] = (ann.get("head") or "") + text
        elif name == "tail":
            ann["tail"] = (ann.get("tail") or "") + text
        elif name == "params":
            ann["seg_params"] = text
        elif name == "optparams":
            ann["seg_optparams"] = text
        elif name == "segtail":
            ann["seg_tail"] = text
        elif name == "before":
            ann.setdefault("before_let", {})[arg] = text
        elif name == "before_stmt":
            ann.setdefault("before_stmt", {})[arg] = text
        elif name == "after":
            ann.setdefault("after_let", {})[arg] = text
        elif name == "decreases":
            ann["decreases"] = text
        elif name == "replace":
            pending["_old"] = (arg, text)
        elif name == "with":
            rule, old = pending.pop("_old")
            ann.setdefault("replaces", []).append((rule, old, text))
        section = None; secbuf = []

    while i < len(raw):
        line = raw[i]
        m = DIRECTIVE.match(line)
        if not m:
            if section is not None:
                secbuf.append(line)
            elif pending is not None and line.strip() == "":
                pass
            elif pending is not None:
                raise Inconclusive(f"{unit_path}:{i+1}: raw text inside an extraction directive without a section")
            else:
                if line.strip() and not line.strip().startswith("//"):
                    flush_groups()
                A.emit(line, "raw", os.path.basename(unit_path))
            i += 1
            continue
        d, rest = m.group(1), m.group(2).strip()
        if d != "use":
            flush_groups()
        if d in ("requires", "ensures", "closure", "loop", "maploop", "forloop", "anyloop", "findloop", "findhit", "findexit", "posloop", "findmutlet", "findmutletexit", "findmut", "findmuthit", "findmutexit", "looptail", "loophead", "head", "tail", "params", "optparams", "segtail", "before", "before_stmt", "after", "replace", "with", "decreases"):
            close_section()
            if pending is None:
                raise Inconclusive(f"{unit_path}:{i+1}: //@{d} outside //@fn")
            section = (d, rest)
        elif d == "aborts":
            close_section()
            pending["aborts"] = rest.split()
        elif d == "end":
            close_section(); flush()
        elif d in ("fn", "struct", "enum", "const"):
            close_section(); flush()
            pos, kv = parse_kv(rest)
            relpath, qual = pos[0], pos[1]
            flags = set(pos[2:])
            if d == "fn":
                ann = {}
                if "ret" in kv: ann["ret"] = kv["ret"]
                if "rename" in kv: ann["rename"] = kv["rename"]
                if "slice" in kv: ann["slice_k"] = int(kv["slice"])
                if "slice_before" in kv: ann["slice_before"] = kv["slice_before"]
                if "seg" in kv:
                    ann["seg_name"] = kv["seg"]; ann["seg_from"] = kv.get("from_stmt") or kv.get("from_after")
                    if "from_after" in kv: ann["seg_from_after"] = kv["from_after"]
                    if "from_block_start" in kv: ann["seg_from_block_start"] = True; ann["seg_from"] = kv.get("to_stmt")
                    if "to_stmt" in kv: ann["seg_to"] = kv["to_stmt"]
                    if "segret" in kv: ann["seg_ret"] = kv["segret"]
                    if "brk" in kv: ann["seg_brk"] = kv["brk"]
                    if "cont" in kv: ann["seg_cont"] = kv["cont"]
                if "xb" in flags: ann["external_body"] = True
                if "from" in kv:
                    # contract PROVED in another unit: copy its requires/ensures verbatim (labels become proved_in:<unit>:<label>)
                    req, ens = import_contract(os.path.join(VERIF, "units", kv["from"] + ".vu"), relpath, qual)
                    ann["external_body"] = True
                    ann["requires"] = req
                    ann["ensures"] = [("proved_in." + kv["from"] + "." + l.split("+")[0].strip().replace(".", "_"), t) for (l, t) in ens]
                    ann["imported_from"] = kv["from"]
                if "inherent" in flags: ann["inherent"] = True
                if "optional" in flags: ann["optional"] = True
                if "keepattrs" in flags: ann["drop_response_attrs"] = False
                pending = {"kind": "fn", "relpath": relpath, "qual": qual, "ann": ann}
                if "from" in kv:
                    flush()
            elif d == "const":
                pending = {"kind": "const", "relpath": relpath, "qual": qual,
                           "opts": {"storage": "storage" in flags, **({"expr": kv["expr"]} if "expr" in kv else {})}}
                flush()
            else:
                pending = {"kind": d, "relpath": relpath, "qual": qual,
                           "opts": {"eq": "eq" in flags, "copy": "copy" in flags, "clone": "noclone" not in flags}}
                flush()
        elif d == "mod":
            close_section(); flush()
            mpos, mkv = parse_kv(rest)
            hide = set((mkv.get("hide") or "").split(","))
            exp = [n for n in getattr(A, "exported", []) if n not in hide]
            A.emit(f"pub mod {mpos[0]} {{\nuse super::*;\n" + (("use super::{" + ", ".join(exp) + "};\n") if exp else "") + IMPORTS
                   + ("broadcast use {" + ", ".join("super::" + g for g in getattr(A, "groups", [])) + "};\n" if getattr(A, "groups", []) else ""), "raw", os.path.basename(unit_path))
        elif d == "endmod":
            close_section(); flush()
            epos, ekv = parse_kv(rest)
            A.emit("}" + ("" if "noexport" in epos[1:] else "\npub use " + epos[0] + "::*;"), "raw", os.path.basename(unit_path))
        elif d in ("use", "lemmas"):
            close_section(); flush()
            path = os.path.join(VERIF, rest)
            with open(path) as f:
                txt = f.read()
            A.emit(f"// ---- {d}: {rest} ----", d, rest)
            if d == "use":
                modname = "p_" + re.sub(r"\W", "_", os.path.basename(rest).rsplit(".", 1)[0])
                prev = getattr(A, "exported", [])
                A.emit(f"pub mod {modname} {{\nuse super::*;\n" + (("use super::{" + ", ".join(prev) + "};\n") if prev else "") + IMPORTS, "prelude", rest)
                A.emit(txt, "prelude", rest)
                names = sorted(set(re.findall(r"^\s*pub\s+(?:struct|enum|trait|type)\s+(\w+)", txt, re.M)))
                A.emit("}\npub use " + modname + "::*;\npub use " + modname + "::{" + ", ".join(names) + "};", "prelude", rest)
                A.exported = getattr(A, "exported", []) + names
                for g in re.findall(r"^//@broadcast\s+(\w+)", txt, re.M):
                    pending_groups.append(f"{modname}::{g}")
            else:
                A.emit(txt, "lemma", rest)
            A.uses.append(rest)
        else:
            raise Inconclusive(f"{unit_path}:{i+1}: unknown directive //@{d}")
        i += 1
    close_section(); flush()
    A.emit(FOOTER, "footer")
    # labels + trusted scan
    cur_fn = None
    for n, l in enumerate(A.lines, 1):
        m = re.search(r"/\*@L ([\w\.\-\+]+)\*/", l)
        if m:
            fq = next((f["qual"] for f in A.fns if f["start"] <= n <= f["end"]), None)
            base, *also = m.group(1).split("+")
            A.labels[n] = (fq, base)
            if also:
                A.also[base] = sorted(set(A.also.get(base, []) + also))
    scan_trusted(A)
    return A


TRUST_PATTERNS = [
    (re.compile(r"#\[verifier::external_body\]"), "external_body"),
    (re.compile(r"\bassume_specification\b"), "assume_specification"),
    (re.compile(r"\badmit\s*\(\s*\)"), "admit"),
    (re.compile(r"\bassume\s*\("), "assume"),
    (re.compile(r"#\[verifier::external\b"), "external"),
    (re.compile(r"\buninterp\s+spec\s+fn\b"), "uninterp"),
    (re.compile(r"\baxiom\s+fn\b|broadcast\s+axiom\s+fn|pub\s+axiom\s+fn"), "axiom"),
]


def scan_trusted(A):
    counts = {}
    where = {}
    for n, l in enumerate(A.lines):
        code = l.split("//")[0]
        for pat, name in TRUST_PATTERNS:
            if pat.search(code):
                kind, info = A.origin[n][0], A.origin[n][1]
                key = (name, kind, info)
                counts[key] = counts.get(key, 0) + 1
    A.trust_counts = counts
    # anything trusted outside prelude files is flagged
    A.trust_outside_prelude = [(k, c) for k, c in counts.items() if k[1] not in ("prelude",) and k[0] not in ()]


def run_verus(A, outpath, rlimit=50, timeout=3600, extra=()):
    """Runs Verus on the assembled text. The result is memoised on the sha256 of that exact text (+ flags):
    the text is re-assembled from /repo on every run, only the solver call for byte-identical input is reused."""
    os.makedirs(os.path.dirname(outpath), exist_ok=True)
    text = A.text()
    key = hashlib.sha256((text + "|" + str(rlimit) + "|" + " ".join(extra)).encode()).hexdigest()
    cdir = os.path.join(VERIF, ".build", "vcache")
    os.makedirs(cdir, exist_ok=True)
    cpath = os.path.join(cdir, key + ".json")
    if os.environ.get("WW_NO_CACHE") != "1" and os.path.exists(cpath):
        try:
            res = json.load(open(cpath))
            res["cached"] = True
            return res
        except Exception:
            pass
    res = _run_verus(A, text, outpath, rlimit, timeout, extra)
    if res.get("status") in ("verified", "failed"):
        tmp = cpath + ".%d.tmp" % os.getpid()
        json.dump(res, open(tmp, "w"))
        os.replace(tmp, cpath)
    return res


def _run_verus(A, text, outpath, rlimit, timeout, extra):
    with open(outpath, "w") as f:
        f.write(text)
    cmd = ["verus", outpath, "--output-json", "--time-expanded", "--multiple-errors", "40", "--error-format=json"]
    if rlimit:
        cmd += ["--rlimit", str(rlimit)]
    cmd += list(extra)
    t0 = time.time()
    try:
        r = subprocess.run(cmd, capture_output=True, text=True, timeout=timeout, cwd=os.path.dirname(outpath))
    except subprocess.TimeoutExpired:
        return {"status": "timeout", "wall_s": time.time() - t0, "cmd": " ".join(cmd), "errors": [], "raw": "timeout"}
    wall = time.time() - t0
    res = {"cmd": " ".join(cmd), "wall_s": wall, "rc": r.returncode, "errors": [], "warnings": []}
    try:
        out = json.loads(r.stdout)
    except Exception:
        out = None
    diags = []
    for l in r.stderr.split("\n"):
        l = l.strip()
        if l.startswith("{"):
            try:
                diags.append(json.loads(l))
            except Exception:
                pass
    res["raw_stderr_tail"] = r.stderr[-3000:] if not diags else ""
    if out is None:
        res["status"] = "machinery-error"
        res["raw"] = (r.stdout[-2000:] + "\n" + r.stderr[-4000:])
        res["diags"] = diags
        res["errors"] = [classify(A, d) for d in diags if d.get("level") == "error"]
        return res
    vr = out.get("verification-results", {})
    res["verified"] = vr.get("verified", 0)
    res["n_errors"] = vr.get("errors", 0)
    res["vir_error"] = vr.get("encountered-vir-error", False)
    res["times"] = out.get("times-ms", {})
    res["func_details"] = list(out.get("func-details", {}).keys())
    for d in diags:
        if d.get("level") == "error":
            c = classify(A, d)
            if c:
                res["errors"].append(c)
    hard = [e for e in res["errors"] if e["class"] in ("machinery", "rlimit")]
    if vr.get("success") and not res["errors"]:
        res["status"] = "verified"
    elif res["vir_error"] or any(e["class"] == "machinery" for e in res["errors"]) or (not vr and True):
        res["status"] = "machinery-error"
    elif any(e["class"] == "rlimit" for e in res["errors"]):
        res["status"] = "rlimit"
    elif not res["errors"]:
        res["status"] = "machinery-error"
        res["raw"] = r.stderr[-4000:]
    else:
        res["status"] = "failed"
    return res


VERIF_MSGS = [
    ("postcondition not satisfied", "post"),
    ("precondition not satisfied", "pre"),
    ("assertion failed", "assert"),
    ("post-condition of closure", "assert"),
    ("pre-condition of closure", "pre"),
    ("precondition of closure", "pre"),
    ("postcondition of closure", "assert"),
    ("requires not satisfied", "assert"),
    ("invariant not satisfied", "inv"),
    ("possible arithmetic underflow/overflow", "arith"),
    ("possible division by zero", "arith"),
    ("decreases not satisfied", "decreases"),
    ("unable to prove assertion", "assert"),
    ("index out of bounds", "arith"),
    ("possible bit shift", "arith"),
    ("could not show termination", "decreases"),
    ("recommendation not met", "recommend"),
    ("unreachable", "assert"),
    ("failed precondition", "pre"),
    ("loop invariant", "inv"),
    ("cannot show invariant", "inv"),
    ("assert_by_compute", "assert"),
    ("Resource limit", "rlimit"),
    ("rlimit", "rlimit"),
]


def classify(A, d):
    msg = d.get("message", "")
    if msg.startswith("aborting due to") or msg.startswith("verification failed"):
        return None
    cls = None
    for pat, c in VERIF_MSGS:
        if pat in msg:
            cls = c
            break
    spans = d.get("spans", [])
    prim = next((s for s in spans if s.get("is_primary")), spans[0] if spans else None)
    e = {"message": msg, "class": cls or "machinery", "spans": [(s["line_start"], s["line_end"], s.get("label"), s.get("is_primary")) for s in spans]}
    if cls == "rlimit":
        e["class"] = "rlimit"
    if prim:
        e["line"] = prim["line_start"]
    # function context: the primary span first (call site / failing statement), then any span inside an extracted fn
    fq = None
    for s in ([prim] if prim else []) + list(spans):
        for f in A.fns:
            if f["start"] <= s["line_start"] <= f["end"]:
                fq = f["qual"]
                e["fn_file"] = f["file"]
        if fq:
            break
    e["fn"] = fq
    # origin of primary
    if prim and 1 <= prim["line_start"] <= len(A.origin):
        o = A.origin[prim["line_start"] - 1]
        e["origin"] = o[0]
        e["origin_info"] = o[1]
        if o[3]:
            e["repo_loc"] = f"{o[2]}:{o[3]}"
        e["text"] = A.lines[prim["line_start"] - 1].strip()[:200]
    if cls == "post":
        for s in spans:
            if s.get("label") and "failed this postcondition" in s["label"]:
                for ln in range(s["line_start"], s["line_start"] - 3, -1):
                    if ln in A.labels:
                        e["label"] = A.labels[ln][1]
                        e["fn"] = A.labels[ln][0] or e["fn"]
                        break
    if cls in ("pre", "assert", "arith", "inv"):
        # call site line in repo
        for s in spans:
            if 1 <= s["line_start"] <= len(A.origin):
                o = A.origin[s["line_start"] - 1]
                if o[0] == "extract" and o[3]:
                    e["repo_loc"] = f"{o[2]}:{o[3]}"
                    e["site_text"] = A.lines[s["line_start"] - 1].strip()[:160]
                    break
        if "/*@VAC*/" in (e.get("text") or ""):
            e["class"] = "vacuity-probe"
    if e["class"] == "machinery" and fq is None and not spans:
        pass
    return e
