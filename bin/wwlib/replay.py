"""Replay of a recorded violation. Verus produces no counterexample, so there is no failing input to run against the real code: a replay
re-runs the property's check on the CURRENT working tree and reports whether the obligation named in the replay file still fails."""
import json, os, subprocess, sys

VERIF = "/verif"


def search_witness(pid, unit, fq, errs, tier, seed):
    # no witness search is built (DESIGN A.5): every VIOLATION line ends `no-failing-input-found`
    return {"found": False, "note": "Verus gives no counterexample and no witness search against the real code is built; "
                                    "the replay re-verifies the named obligation on the current tree"}


def witness_still_fails(k):
    # known findings are identified by obligation + region (re-verified on every run by the carve-out); their demos live under findings/<id>/
    return True


def replay_file(path, pid):
    d = json.load(open(path))
    oblig = d.get("failed_obligation")
    print(f"replay: property={pid} obligation={oblig} function={d.get('function')} unit={d.get('unit')}")
    print("replay: verifier output recorded at the time of the violation:")
    print(json.dumps(d.get("primary"), indent=1)[:1500])
    r = subprocess.run([os.path.join(VERIF, "bin", "check"), pid, "--outdir", "/var/tmp/ww_replay_out.%d" % os.getpid()], capture_output=True, text=True)
    still = [l for l in r.stdout.split("\n") if "failed obligation:" in l and oblig and oblig in l]
    if r.returncode == 2:
        print("replay: the check is INCONCLUSIVE on the current tree"); print(r.stdout[-800:])
        return 2
    if still:
        print(f"VIOLATION property={pid} replay={path} no-failing-input-found")
        print(still[0])
        return 1
    print("replay: the obligation is discharged on the current tree (the violation does not reproduce)")
    return 0
