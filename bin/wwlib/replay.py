"""Witness search / replay against the REAL code (overlay build). Stub until the replay crate exists."""
import json, os


def search_witness(pid, unit, fq, errs, tier, seed):
    return {"found": False, "note": "no witness harness registered for this obligation"}


def witness_still_fails(k):
    return True


def replay_file(path, pid):
    d = json.load(open(path))
    print(json.dumps(d.get("witness"), indent=1))
    return 0
