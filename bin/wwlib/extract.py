"""Mechanical extraction of real items from /repo into Verus unit files.

Every byte of an extracted item is the repo's byte unless it is covered by a logged rewrite
(rules R1..R7, M3, D*) or is an injected *annotation* (A1: requires/ensures/invariants/proof
blocks, which Verus erases).  All spans come from the syn-based indexer tools/wwx.
"""
import json, os, re, subprocess, hashlib

VERIF = os.environ.get("WW_VERIF") or os.path.dirname(os.path.dirname(os.path.dirname(os.path.abspath(__file__))))
REPO = os.environ.get("WW_REPO", "/repo")
WWX = os.path.join(VERIF, ".build/wwx/release/wwx")


class Inconclusive(Exception):
    """Machinery problem (lost anchor, unsupported construct...) -> exit 2, never an alarm."""


_index_cache = {}


def ensure_wwx():
    if not os.path.exists(WWX):
        env = dict(os.environ, CARGO_TARGET_DIR=os.path.join(VERIF, ".build/wwx"), CARGO_NET_OFFLINE="true")
        r = subprocess.run(["cargo", "build", "--release", "--offline"], cwd=os.path.join(VERIF, "tools/wwx"),
                           env=env, capture_output=True, text=True)
        if r.returncode != 0:
            raise Inconclusive("cannot build wwx: " + r.stderr[-2000:])


def index_files(relpaths):
    ensure_wwx()
    todo = [p for p in relpaths if p not in _index_cache]
    if todo:
        r = subprocess.run([WWX] + [os.path.join(REPO, p) for p in todo], capture_output=True, text=True)
        if r.returncode != 0:
            raise Inconclusive("wwx failed: " + r.stderr[-2000:])
        d = json.loads(r.stdout)
        for p in todo:
            v = d[os.path.join(REPO, p)]
            if "error" in v:
                raise Inconclusive(f"wwx cannot index {p}: {v['error']}")
            with open(os.path.join(REPO, p), "rb") as f:
                v["src"] = f.read()
            _index_cache[p] = v
    return {p: _index_cache[p] for p in relpaths}


def find_item(relpath, qual, kinds=("fn",)):
    idx = index_files([relpath])[relpath]
    hits = []

    def walk(items, parent=None):
        for it in items:
            if it["kind"] in ("impl", "trait"):
                walk(it["items"], it)
            if it["kind"] in kinds and (it.get("qual") == qual or it.get("name") == qual and it["kind"] != "fn"):
                hits.append((it, parent))
    walk(idx["items"])
    if not hits:
        raise Inconclusive(f"anchor lost: {relpath} :: {qual} ({'/'.join(kinds)}) not found")
    if len(hits) > 1:
        raise Inconclusive(f"anchor ambiguous: {relpath} :: {qual} found {len(hits)} times")
    return hits[0][0], hits[0][1], idx["src"]


def split_top_commas(s):
    out, depth, cur, i = [], 0, [], 0
    instr = None
    while i < len(s):
        c = s[i]
        if instr:
            cur.append(c)
            if c == "\\":
                cur.append(s[i + 1]); i += 1
            elif c == instr:
                instr = None
        elif c == '"':
            instr = c; cur.append(c)
        elif c in "([{":
            depth += 1; cur.append(c)
        elif c in ")]}":
            depth -= 1; cur.append(c)
        elif c == "," and depth == 0:
            out.append("".join(cur)); cur = []
        else:
            cur.append(c)
        i += 1
    if "".join(cur).strip():
        out.append("".join(cur))
    return out


class Edits:
    """Non-overlapping span edits over a source byte range, with an out->src map."""

    def __init__(self, src, start, end, relpath):
        self.src, self.start, self.end, self.relpath = src, start, end, relpath
        self.edits = []  # (s, e, text, rule, prio)
        self.log = []

    def add(self, s, e, text, rule, note=""):
        assert self.start <= s <= e <= self.end, (s, e, self.start, self.end)
        self.edits.append((s, e, text, rule))
        if rule and rule != "A1":
            line = self.src.count(b"\n", 0, s) + 1
            self.log.append({"file": self.relpath, "line": line, "rule": rule,
                             "note": note or self.src[s:e].decode()[:80].replace("\n", " ")})

    def render(self):
        # drop edits strictly inside a larger replacing edit; keep insertions at same point ordered
        eds = sorted(enumerate(self.edits), key=lambda t: (t[1][0], t[1][1] - t[1][0] == 0 and -1 or 0, t[0]))
        big = [(s, e) for (s, e, t, r) in self.edits if e > s]
        keep = []
        for i, (s, e, t, r) in eds:
            inside = any((bs <= s and e <= be) and (bs, be) != (s, e) and (be - bs) > (e - s) and not (s == e and (s == bs or s == be))
                         for (bs, be) in big)
            if inside:
                continue
            keep.append((s, e, t, r))
        out, segs, pos = [], [], self.start
        outlen = 0
        for (s, e, t, r) in keep:
            if s < pos:
                raise Inconclusive(f"overlapping rewrites at byte {s} in {self.relpath} (rule {r})")
            chunk = self.src[pos:s]
            segs.append((outlen, pos, len(chunk)))
            out.append(chunk); outlen += len(chunk)
            tb = t.encode()
            out.append(tb); outlen += len(tb)
            pos = e
        chunk = self.src[pos:self.end]
        segs.append((outlen, pos, len(chunk)))
        out.append(chunk)
        return b"".join(out).decode(), segs


def _srcline(src, off):
    return src.count(b"\n", 0, off) + 1


def line_map(text, segs, src):
    """output line (0-based within text) -> repo line or None"""
    tb = text.encode()
    starts = [0]
    for i, b in enumerate(tb):
        if b == 10:
            starts.append(i + 1)
    res = []
    for ls in starts:
        le = tb.find(b"\n", ls)
        if le < 0:
            le = len(tb)
        m = None
        for (o, s, n) in segs:
            # any overlap of [ls,le) with [o,o+n)
            a, b = max(ls, o), min(le, o + n)
            if a < b or (n > 0 and ls == le and o <= ls < o + n):
                m = _srcline(src, s + (a - o))
                break
        res.append(m)
    return res


ATTR_RESP_METHODS = {"add_attribute", "add_attributes"}


def extract_fn(relpath, qual, ann):
    """ann: dict with optional keys ret, requires, ensures[(label,text)], closures{k:text},
    loops{k:text}, head, before_let{name:text}, replaces[(rule,old,new)], slice_k, rename,
    keep_attrs(bool), drop_response_attrs(bool, default True), external_body(bool)"""
    it, parent, src = find_item(relpath, qual, ("fn",))
    s0, e0 = it["span"]
    ed = Edits(src, s0, e0, relpath)
    labels = []  # (label, marker)
    # R3 attributes on the fn
    for a in it["attrs"]:
        if a["path"] in ("doc",):
            ed.add(a["span"][0], a["span"][1], "", None)
        else:
            ed.add(a["span"][0], a["span"][1], "", "R3", "strip #[%s]" % a["text"][:60])
    # inner attributes (cfg evaluation for default features, allow(...) etc)
    for a in it.get("inner_attrs", []):
        if a["path"] == "cfg":
            active = eval_cfg(a["text"])
            if active:
                ed.add(a["span"][0], a["span"][1], "", "R3", "cfg true for default features: " + a["text"])
            else:
                o = a["owner"]
                # remove owner incl. trailing comma/semicolon if present
                end = o[1]
                m = re.match(rb"\s*[,;]", src[end:end + 8])
                if m:
                    end += m.end()
                ed.add(a["span"][0], end, "", "R3", "cfg false for default features, dropped: " + a["text"])
        elif a["path"] in ("allow", "doc", "rustfmt::skip"):
            ed.add(a["span"][0], a["span"][1], "", None)
        else:
            raise Inconclusive(f"unsupported inner attribute #[{a['text']}] in {qual}")
    for inp in it["inputs"]:
        for a in inp.get("attrs", []) or []:
            ed.add(a["span"][0], a["span"][1], "", "R3", "strip param attr")
    if ann.get("rename"):
        # name ident is inside sig; find it textually
        sig_s, sig_e = it["sig"]
        m = re.search(rb"\bfn\s+(" + it["name"].encode() + rb")\b", src[sig_s:sig_e])
        ed.add(sig_s + m.start(1), sig_s + m.end(1), ann["rename"], None)
    # return naming
    retname = ann.get("ret")
    if retname:
        if it["ret"] is None:
            ed.add(it["paren_end"], it["paren_end"], f" -> ({retname}: ())", "A1")
        else:
            rs, re_ = it["ret"]
            ed.add(rs, re_, f"({retname}: {src[rs:re_].decode()})", None)
    bs, be = it["block"]
    spec = []
    if ann.get("requires"):
        spec.append("    requires\n" + ann["requires"].rstrip() + "\n")
    if ann.get("ensures"):
        spec.append("    ensures\n")
        for (label, text) in ann["ensures"]:
            marker = f"/*@L {label}*/"
            t = text.strip()
            if not t.endswith(","):
                t += ","
            spec.append(f"        {marker} {t}\n")
            labels.append(label)
    if ann.get("decreases"):
        spec.append("    decreases " + ann["decreases"].strip() + "\n")
    if ann.get("opens_invariants"):
        pass
    if spec:
        ed.add(bs, bs, "\n" + "".join(spec), "A1")
    if ann.get("external_body"):
        # assumed contract: keep the real signature, drop the body (reported as assumption)
        ed.add(bs + 1, be - 1, " unimplemented!() ", "XB", "body dropped: contract ASSUMED")
        text, segs = ed.render()
        for pat, rep in ((r"&mut dyn Storage", "&mut Storage"), (r"&dyn Storage", "&Storage"), (r"&dyn Api", "&Api")):
            if pat in text:
                ed.log.append({"file": relpath, "line": _srcline(src, s0), "rule": "R2", "note": pat + " -> " + rep})
                text = text.replace(pat, rep)
        for m in set(re.findall(r"impl Into<(Uint256|Uint128|Uint512|u128)>(?!\s*\+)", text)):
            text = re.sub(r"impl Into<%s>(?!\s*\+)" % m, "impl Into<%s> + ToNat" % m, text)
        lm = [None] + line_map(text, segs, src)
        text, lm = wrap_parent("#[verifier::external_body]\n" + text, parent, lm, ann.get("inherent"))
        return text, lm, src, ed.log, labels, it
    if ann.get("head"):
        ed.add(bs + 1, bs + 1, "\n" + ann["head"].rstrip() + "\n", "A1")
    # closures
    for k, ctext in (ann.get("closures") or {}).items():
        k, want = _closure_key(k)
        ren = {}
        if k < len(it["closures"]) or want:
            _others = [_closure_key(k2)[1] for k2 in (ann.get("closures") or {}) if _closure_key(k2)[0] != k]
            res = _resolve_closure(it["closures"], k, want, src, qual, ed, relpath, _srcline(src, s0), _others)
            if res is not None:
                k, ren = res
                ctext = _rename_words(ctext, ren)
            elif want:
                continue
        if k >= len(it["closures"]):
            # the annotated closure no longer exists (e.g. an `update(|c| ..)` replaced by a plain `save`): nothing to annotate;
            # the function is verified without it and its contract decides
            ed.log.append({"file": relpath, "line": _srcline(src, s0), "rule": "A1", "note": f"closure annotation #{k} not applied: {qual} has only {len(it['closures'])} closures"})
            continue
        c = it["closures"][k]
        CLOSURE_SEEN.append((qual, k, _closure_params(c, src)))
        if c["ret"] is not None:
            # the closure spells its return type (`|x| -> T { .. }`): the annotation's `-> (r: T') ensures ..` takes its place
            ed.add(c["or2_end"], c["ret"][1], " " + ctext.strip() + " ", "A1")
        else:
            ed.add(c["or2_end"], c["or2_end"], " " + ctext.strip() + " ", "A1")
        if not c["body_is_block"]:
            ed.add(c["body"][0], c["body"][0], "{ ", "A1")
            ed.add(c["body"][1], c["body"][1], " }", "A1")
    # R1 wildcard closure params
    n = 0
    for c in it.get("closures", []):
        for p in c["params"]:
            if p["wild"]:
                ed.add(p["span"][0], p["span"][1], f"_p{n}", "R1")
                n += 1
    apply_ref_closure_params(ed, it.get("closures", []), src, ann)
    # loops
    for k, ltext in (ann.get("loops") or {}).items():
        k = int(k)
        if k >= len(it["loops"]):
            raise Inconclusive(f"anchor lost: loop #{k} of {qual}")
        l = it["loops"][k]
        ed.add(l["body"][0], l["body"][0], "\n" + ltext.rstrip() + "\n", "A1")
        if l["kind"] == "for":
            # name the ghost iterator so that the invariant can speak about its position
            ed.add(l["iter_expr"][0], l["iter_expr"][0], "verif_it: ", "A1")
    if ann.get("tail"):
        st = it["stmts"]
        if not st:
            raise Inconclusive(f"anchor lost: {qual} has no statements")
        ed.add(st[-1]["span"][0], st[-1]["span"][0], ann["tail"].rstrip() + "\n", "A1")
    for prefix, ptext in (ann.get("before_stmt") or {}).items():
        def _norm(x): return re.sub(r"\s+", " ", src[x["span"][0]:x["span"][1]].decode())
        allst = list(it["stmts"]) + [x for b in it.get("blocks", []) for x in b["stmts"]]
        seen, hits = set(), []
        for x in allst:
            key = tuple(x["span"])
            if key in seen: continue
            seen.add(key)
            if _norm(x).startswith(prefix): hits.append(x)
        if len(hits) != 1:
            raise Inconclusive(f"anchor lost: statement starting with {prefix!r} found {len(hits)} times in {qual}")
        ed.add(hits[0]["span"][0], hits[0]["span"][0], ptext.rstrip() + "\n", "A1")
    for k, ptext in (ann.get("loopheads") or {}).items():
        k = int(k)
        if k >= len(it["loops"]):
            raise Inconclusive(f"anchor lost: loop #{k} of {qual}")
        b0 = it["loops"][k]["body"][0]
        ed.add(b0 + 1, b0 + 1, "\n" + ptext.rstrip() + "\n", "A1")
    for k, ptext in (ann.get("looptails") or {}).items():
        k = int(k)
        if k >= len(it["loops"]):
            raise Inconclusive(f"anchor lost: loop #{k} of {qual}")
        b1 = it["loops"][k]["body"][1]
        ed.add(b1 - 1, b1 - 1, "\n" + ptext.rstrip() + "\n", "A1")
    for name, ptext in (ann.get("before_let") or {}).items():
        h = _pick_let(it["lets"], name, src, qual)
        ed.add(h["span"][0], h["span"][0], ptext.rstrip() + "\n", "A1")
    for name, ptext in (ann.get("after_let") or {}).items():
        h = _pick_let(it["lets"], name, src, qual)
        ed.add(h["span"][1], h["span"][1], "\n" + ptext.rstrip() + "\n", "A1")
    _cut = None
    if ann.get("slice_before"):
        _h = [x for x in it["stmts"] if re.sub(r"\s+", " ", src[x["span"][0]:x["span"][1]].decode()).startswith(ann["slice_before"])]
        _cut = _h[0]["span"][0] if len(_h) == 1 else None
    elif ann.get("slice_k") is not None and int(ann["slice_k"]) < len(it["stmts"]):
        _cut = it["stmts"][int(ann["slice_k"])]["span"][0]
    _check_loops_covered(it["loops"], ann, qual, cut=_cut)
    apply_maploops(ed, it, it["closures"], src, ann, qual, relpath)
    apply_forloops(ed, it["loops"], src, ann, qual)
    apply_fund_sums(ed, src, s0, e0)
    apply_bound_ctor_maps(ed, src, s0, e0)
    apply_int_min(ed, it, src)
    apply_range_next(ed, it, src)
    apply_be_vec(ed, it, src)
    apply_admin_set(ed, it, src)
    apply_sort_concat(ed, src, s0, e0)
    apply_ref_tuple_patterns(ed, src, s0, e0)
    apply_destructuring_assign(ed, src, s0, e0)
    apply_format_macros(ed, it, src)
    apply_storage_has(ed, it, src)
    apply_anyloops(ed, it, it["closures"], src, ann, qual)
    apply_findloops(ed, it, it["closures"], src, ann, qual)
    apply_posloops(ed, it, it["closures"], src, ann, qual)
    apply_findmuts(ed, it, it["closures"], src, ann, qual)
    apply_findmut_lets(ed, it, it["closures"], src, ann, qual)
    # R6 response attributes
    if ann.get("drop_response_attrs", True):
        for m in it.get("mcalls", []):
            if m["name"] in ATTR_RESP_METHODS:
                ed.add(m["recv_end"], m["span"][1], "", "R6", "." + m["name"] + "(..) removed")
    # R7 ensure!
    for m in it.get("macros", []):
        if m["path"] in ("ensure", "cosmwasm_std::ensure"):
            a0, a1 = m["args"]
            args = split_top_commas(src[a0 + 1:a1 - 1].decode())
            if len(args) != 2:
                raise Inconclusive("ensure! with %d args" % len(args))
            ed.add(m["span"][0], m["span"][1],
                   f"if !({args[0].strip()}) {{ return Err(core::convert::From::from({args[1].strip()})); }}", "R7")
    # M3 slice
    if ann.get("slice_before"):
        # M3 by anchor: everything from the unique top-level statement starting with the prefix is dropped (robust against statements
        # added to or removed from the kept part)
        hits = [j for j, x in enumerate(it["stmts"]) if re.sub(r"\s+", " ", src[x["span"][0]:x["span"][1]].decode()).startswith(ann["slice_before"])]
        if len(hits) != 1:
            raise Inconclusive(f"anchor lost: M3 slice_before={ann['slice_before']!r} matches {len(hits)} statements of {qual}")
        ann = dict(ann, slice_k=hits[0])
    if ann.get("slice_k") is not None:
        k = int(ann["slice_k"])
        st = it["stmts"]
        if k >= len(st):
            raise Inconclusive(f"M3 slice k={k} but {qual} has only {len(st)} statements")
        ed.add(st[k]["span"][0], be - 1, "return verif_havoc();\n", "M3",
               f"tail after statement {k} replaced by havoc ({len(st) - k} statements dropped)")
    # D* replaces (exact snippets)
    for (rule, old, new) in ann.get("replaces") or []:
        ob = old.strip().encode()
        body = src[s0:e0]
        cnt = body.count(ob)
        every = rule.endswith(" all")
        optional = rule.endswith(" opt")
        rule = rule.split()[0]
        if cnt == 0 and optional:
            continue
        if cnt < 1 or (cnt != 1 and not every):
            raise Inconclusive(f"anchor lost: rewrite {rule} snippet found {cnt} times in {qual}: {old.strip()[:60]!r}")
        pos = 0
        while True:
            q = body.find(ob, pos)
            if q < 0:
                break
            ed.add(s0 + q, s0 + q + len(ob), new.strip(), rule, "catalogue desugaring: " + old.strip()[:60].replace("\n", " "))
            pos = q + len(ob)
    text, segs = ed.render()
    if re.match(r"\s*pub\(crate\)", text):
        text = text.replace("pub(crate)", "pub", 1)
        ed.log.append({"file": relpath, "line": _srcline(src, s0), "rule": "R11", "note": "pub(crate) -> pub (visibility only)"})
    for m in set(re.findall(r"impl Into<(Uint256|Uint128|Uint512|u128)>(?!\s*\+)", text)):
        text = re.sub(r"impl Into<%s>(?!\s*\+)" % m, "impl Into<%s> + ToNat" % m, text)
        ed.log.append({"file": relpath, "line": _srcline(src, s0), "rule": "R9",
                       "note": f"`impl Into<{m}>` parameter gets the ghost-only bound `+ ToNat`"})
    # R2 dyn storage/api (textual, on the rendered text; keeps offsets roughly: same line count)
    for pat, rep in ((r"&mut dyn Storage", "&mut Storage"), (r"&dyn Storage", "&Storage"),
                     (r"&dyn Api", "&Api"), (r"&'a dyn Storage", "&'a Storage")):
        if pat in text:
            ed.log.append({"file": relpath, "line": _srcline(src, s0), "rule": "R2", "note": pat + " -> " + rep})
            # same-length padding is not needed for line mapping (line-granular)
            text, segs = _subst(text, segs, pat, rep)
    if auto_inline_map() and not ann.get("_no_inline"):
        text = apply_auto_inline(text, relpath, ed.log)
    lm = line_map(text, segs, src)
    if ann.get("inherent") and parent and parent.get("trait"):
        ed.log.append({"file": relpath, "line": _srcline(src, s0), "rule": "R8",
                       "note": f"method of `impl {parent['trait']} for {parent['self_ty']}` emitted as inherent method"})
    text, lm = wrap_parent(text, parent, lm, ann.get("inherent"))
    return text, lm, src, ed.log, labels, it



# ---- D27: a call to a private helper the unit has no contract for (a helper extracted by a refactoring) is INLINED at the call ----
# AUTO_INLINE maps a function name to the relpath of the file that defines it; it is filled by the driver after a first Verus run ended
# with "cannot find function `X`" inside an extracted function, and the unit is then assembled once more. Accepted shapes only (else the
# call is left alone and the run stays INCONCLUSIVE): `X(args)?` with X returning `Result<_, E>` where the body ends in `Ok(EXPR)` and has
# no `return Ok(`; or `X(args)` with X returning a plain value and no `return` at all. The helper's text goes through the same R-rules.
import threading
_TL = threading.local()
def auto_inline_map():
    return getattr(_TL, 'm', None) or {}
def set_auto_inline(m):
    _TL.m = dict(m or {})


def _match_paren(t, i):
    depth = 0
    for j in range(i, len(t)):
        if t[j] in "([{": depth += 1
        elif t[j] in ")]}":
            depth -= 1
            if depth == 0: return j
    return -1


def _strip_comments(t):
    t = re.sub(r"/\*.*?\*/", " ", t, flags=re.S)
    return re.sub(r"(?m)(^|[^:\"'])//[^\n]*", r"\1", t)


def apply_auto_inline(text, relpath, log):
    for name, hrel in list(auto_inline_map().items()):
        rx = re.compile(r"(?<![\w.])(?:\w+::)*" + re.escape(name) + r"\s*\(")
        pos = 0
        while True:
            m = rx.search(text, pos)
            if not m: break
            if re.search(r"\bfn\s+$", text[max(0, m.start() - 12):m.start()]):
                pos = m.end(); continue
            op = m.end() - 1
            cl = _match_paren(text, op)
            if cl < 0: break
            args = [a.strip() for a in split_top_commas(text[op + 1:cl]) if a.strip()]
            after = re.match(r"\s*\?", text[cl + 1:])
            try:
                htext, _lm, _src, hlog, _labels, hit = extract_fn(hrel, name, {"_no_inline": True})
            except Exception as ex:
                raise Inconclusive(f"D27: helper {name} of {hrel} cannot be extracted: {ex}")
            htext = _strip_comments(htext)
            hm = re.search(r"\bfn\s+" + re.escape(name) + r"\s*(<[^>]*>)?\s*\(", htext)
            if not hm or hm.group(1): raise Inconclusive(f"D27: helper {name} is generic or has an unreadable signature")
            pop = hm.end() - 1; pcl = _match_paren(htext, pop)
            params = [x.strip() for x in split_top_commas(htext[pop + 1:pcl]) if x.strip()]
            bop = htext.index("{", pcl); bcl = _match_paren(htext, bop)
            ret = htext[pcl + 1:bop].strip()
            ret = ret[2:].strip() if ret.startswith("->") else ""
            body = htext[bop + 1:bcl].strip()
            if len(params) != len(args) or any(p.split(":")[0].strip() in ("self", "&self", "&mut self") for p in params):
                raise Inconclusive(f"D27: call of {name} does not match its parameter list")
            # a closure WITH parameters inside the helper would need an annotation (its result is unknown to the verifier otherwise), a loop
            # an invariant: nothing can be concluded about the caller then, and a failed clause would not mean a broken property
            if re.search(r"\|\s*(mut\s+)?[A-Za-z_(&]", re.sub(r"\|\|", "", body)) or re.search(r"\b(for|while|loop)\b", body):
                raise Inconclusive(f"D27: helper {name} contains a loop or a closure with parameters: it would need annotations the unit does not have")
            is_res = bool(re.match(r"(Std)?Result\s*<", ret))
            if is_res:
                if not after or re.search(r"\breturn\s+Ok\b", body): raise Inconclusive(f"D27: helper {name} returns a Result that is not consumed by `?`, or returns Ok early")
                b = body.rstrip()
                if not b.endswith(")"): raise Inconclusive(f"D27: helper {name} does not end in Ok(..)")
                depth = 0; to = -1
                for q in range(len(b) - 1, -1, -1):
                    if b[q] in ")]}": depth += 1
                    elif b[q] in "([{":
                        depth -= 1
                        if depth == 0: to = q; break
                pre = b[:to].rstrip() if to > 0 else ""
                if not re.search(r"(^|[\s;}])Ok$", pre): raise Inconclusive(f"D27: helper {name} does not end in a plain Ok(..)")
                body = pre[:-2] + " (" + b[to + 1:-1] + ")"
                end = cl + 1 + after.end()
            else:
                if re.search(r"\breturn\b", body): raise Inconclusive(f"D27: helper {name} returns early")
                end = cl + 1
            pats, tys, vals = [], [], []
            for prm, a in zip(params, args):
                pn, ty = prm.split(":", 1)
                pats.append(pn.strip()); tys.append(ty.strip())
                vals.append("&mut *" + a if ty.strip().startswith("&mut") and not a.startswith("&mut") else a)
            one = "{ let (" + ", ".join(pats) + ",): (" + ", ".join(tys) + ",) = (" + ", ".join(vals) + ",); " + body + " }"
            one = re.sub(r"\s*\n\s*", " ", one)
            nl = text[m.start():end].count("\n")
            text = text[:m.start()] + one + "\n" * nl + text[end:]
            pos = m.start() + len(one)
            log.append({"file": relpath, "line": 0, "rule": "D27", "note": f"call of the private helper `{name}` ({hrel}) inlined: parameters bound to the arguments, body copied, `Ok(e)` tail becomes `e`" if is_res else f"call of the private helper `{name}` ({hrel}) inlined"})
            log.extend(hlog)
    return text

_FUND_SUM_FILTERED = re.compile(rb"(?P<x>\w+(?:\s*\.\s*\w+)*)\s*\.\s*iter\(\)\s*\.\s*filter\(\s*\|(?P<a>\w+)\|\s*(?P=a)\.denom\s*==\s*(?P<d>[\w\.]+)\s*\)\s*\.\s*map\(\s*\|(?P<b>\w+)\|\s*(?P=b)\.amount\s*\)\s*\.\s*sum::<Uint128>\(\)")
_FUND_SUM_ALL = re.compile(rb"(?P<x>\w+(?:\s*\.\s*\w+)*)\s*\.\s*iter\(\)\s*\.\s*map\(\s*\|(?P<b>\w+)\|\s*(?P=b)\.amount\s*\)\s*\.\s*sum::<Uint128>\(\)")


def apply_fund_sums(ed, src, s0, e0):
    """D5 (mechanical, wherever the shape occurs): summing the amounts of a coin list, of one denom or of all of them."""
    body = src[s0:e0]
    for m in _FUND_SUM_FILTERED.finditer(body):
        x = re.sub(rb"\s+", b"", m.group("x")).decode(); d = m.group("d").decode()
        ed.add(s0 + m.start(), s0 + m.end(), f"verif_sum_funds(&{x}, &{d})", "D5", "coin amounts of one denom summed by the prelude helper (Uint128 Sum = checked fold)")
    for m in _FUND_SUM_ALL.finditer(body):
        x = re.sub(rb"\s+", b"", m.group("x")).decode()
        ed.add(s0 + m.start(), s0 + m.end(), f"verif_sum_all_funds(&{x})", "D5", "coin amounts of every denom summed by the prelude helper")



def apply_anyloops(ed, it, closures, src, ann, qual):
    """D16: `X.iter().any(|p| BODY)` -> a block holding an index loop over X with BODY copied by span, stopping at the first hit
    (`//@anyloop k`, k = ordinal of the closure; the loop invariant is supplied by the annotation)."""
    for k, inv in (ann.get("anyloops") or {}).items():
        k = int(k)
        if k >= len(closures):
            raise Inconclusive(f"anchor lost: closure #{k} of {qual} (anyloop)")
        c = closures[k]
        mp = [m for m in it["mcalls"] if m["name"] == "any" and len(m["args"]) == 1 and m["args"][0] == c["span"]]
        if len(mp) != 1 or len(c["params"]) != 1:
            raise Inconclusive(f"D16: closure #{k} of {qual} is not the argument of an .any(|p| ..) call")
        mp = mp[0]
        itc = [m for m in it["mcalls"] if m["name"] == "iter" and m["span"][1] == mp["recv_end"]]
        if len(itc) != 1:
            raise Inconclusive(f"D16: .any of closure #{k} in {qual} is not of the shape X.iter().any(..)")
        itc = itc[0]
        xsrc = src[itc["span"][0]:itc["recv_end"]].decode()
        ptxt = src[c["params"][0]["span"][0]:c["params"][0]["span"][1]].decode()
        b0, b1 = c["body"]
        head = ("{ let verif_anyv = &" + xsrc + "; let mut verif_any = false; let mut verif_ai: usize = 0;\n"
                "while verif_ai < verif_anyv.len()\n" + inv.rstrip() + "\n    decreases verif_anyv.len() - verif_ai\n"
                "{ let " + ptxt + " = &verif_anyv[verif_ai]; if ")
        ed.add(itc["span"][0], b0, head, "D16", f"`{xsrc.strip()[:30]}.iter().any(..)` desugared to an index loop with early exit (closure body copied by span)")
        ed.add(b1, mp["span"][1], " { verif_any = true; break; } verif_ai = verif_ai + 1; } verif_any }", None)



def apply_findloops(ed, it, closures, src, ann, qual):
    """D17: `X.iter().find(|p| COND)` -> a block holding an index loop over X that stops at the first element satisfying COND
    (copied by span) and yields `Option<&T>` (`//@findloop k`, k = ordinal of the closure; invariant supplied by the annotation).
    A leading `&` of the closure pattern (`|&p|`, destructuring the `&&T` that `find` passes) is dropped: the loop binds `p: &T`."""
    for k, inv in (ann.get("findloops") or {}).items():
        elem_ty = "_"
        if " " in str(k).strip():
            k, elem_ty = str(k).split(None, 1)
        k = int(k)
        if k >= len(closures):
            raise Inconclusive(f"anchor lost: closure #{k} of {qual} (findloop)")
        c = closures[k]
        mp = [m for m in it["mcalls"] if m["name"] == "find" and len(m["args"]) == 1 and m["args"][0] == c["span"]]
        if len(mp) != 1 or len(c["params"]) != 1:
            raise Inconclusive(f"D17: closure #{k} of {qual} is not the argument of a .find(|p| ..) call")
        mp = mp[0]
        itc = [m for m in it["mcalls"] if m["name"] in ("iter", "into_iter") and m["span"][1] == mp["recv_end"]]
        if len(itc) != 1:
            raise Inconclusive(f"D17: .find of closure #{k} in {qual} is not of the shape X.iter().find(..)")
        itc = itc[0]
        if itc["name"] == "into_iter":
            ed.log.append({"file": "", "line": _srcline(src, itc["span"][0]), "rule": "D17",
                           "note": "`X.into_iter().find(..)`: the source is bound by value and the loop yields the element itself (verif_elem: the element at that index)"})
        xsrc = src[itc["span"][0]:itc["recv_end"]].decode()
        ptxt = src[c["params"][0]["span"][0]:c["params"][0]["span"][1]].decode().strip()
        if ptxt.startswith("&"):
            ptxt = ptxt[1:].strip()
        b0, b1 = c["body"]
        byval = itc["name"] == "into_iter"
        # `X.iter().find(..).cloned()`: the clone is taken inside the block (the element itself is yielded), so that X may be a temporary
        cl = [m for m in it["mcalls"] if m["name"] == "cloned" and not m["args"] and m["recv_end"] == mp["span"][1]]
        end_at = mp["span"][1]
        if cl and not byval and not re.match(r"^[\w\.]+$", xsrc.strip()):
            byval_yield, end_at = True, cl[0]["span"][1]
        else:
            byval_yield = byval
        head = ("{ let verif_fv = " + ("" if byval else "&") + xsrc + "; let mut verif_found: Option<" + ("" if byval_yield else "&") + elem_ty + "> = None; let mut verif_fi: usize = 0;\n"
                "while verif_fi < verif_fv.len()\n" + inv.rstrip() + "\n    decreases verif_fv.len() - verif_fi\n"
                "{ let " + ptxt + " = &verif_fv[verif_fi]; if ")
        ed.add(itc["span"][0], b0, head, "D17", f"`{xsrc.strip()[:30]}.iter().find(..)` desugared to an index loop stopping at the first match (closure body copied by span)")
        hit = (ann.get("findhits") or {}).get(str(k), "").strip()
        ext = (ann.get("findexits") or {}).get(str(k), "").strip()
        found = "verif_elem(&verif_fv, verif_fi)" if byval else ("verif_elem(verif_fv, verif_fi)" if byval_yield else ptxt)
        ed.add(b1, end_at, " { verif_found = Some(" + found + "); " + hit + " break; } verif_fi = verif_fi + 1; } " + ext + " verif_found }", None)



CLOSURE_SEEN = []   # (qual-or-segment, ordinal, parameter names) of every closure an annotation was applied to (tools/closure_names.py)


def _closure_key(k):
    """`//@closure 3 a,b` -> (3, ['a','b'] or None): the optional list names the parameters the annotated closure has on the tree the
    annotation was written for; when the closure found at that ordinal has other parameters it is a different closure (ordinals
    shift when a closure is added or removed before it) and the annotation is NOT applied (logged): the function is verified without it."""
    parts = str(k).split(None, 1)
    return int(parts[0]), ([x.strip() for x in parts[1].split(",") if x.strip()] if len(parts) > 1 and parts[1].strip() != "-" else ([] if len(parts) > 1 else None))


def _resolve_closure(closures, k, want, src, where, ed, relpath, line, others=None):
    """Which closure a `//@closure k a,b` annotation belongs to, and how its parameter names map to the current ones.
    1. closure #k has the recorded parameters -> it; 2. exactly one closure has them -> that one (ordinals shifted because a closure was
    added or removed before it); 3. closure #k has the same NUMBER of parameters -> the parameters were renamed: the annotation is applied
    with the names substituted; 4. otherwise the anchor is lost (INCONCLUSIVE) - never 'verify without the annotation', which would
    turn a harmless edit into a failed proof."""
    if want is None:
        return (k, {}) if k < len(closures) else None
    if k < len(closures) and _closure_params(closures[k], src) == want:
        return k, {}
    same = [j for j, c in enumerate(closures) if _closure_params(c, src) == want]
    if len(same) == 1:
        ed.log.append({"file": relpath, "line": line, "rule": "A1", "note": f"closure annotation #{k} of {where} applied to closure #{same[0]} (the one with parameters {want}; ordinals shifted)"})
        return same[0], {}
    if k < len(closures) and len(_closure_params(closures[k], src)) == len(want) and want:
        have = _closure_params(closures[k], src)
        if all(re.match(r"^\w+$", h) for h in have):
            ed.log.append({"file": relpath, "line": line, "rule": "A1", "note": f"closure annotation #{k} of {where}: parameters renamed {want} -> {have}, names substituted in the annotation"})
            return k, dict(zip(want, have))
    # no closure carries those names and the one at that ordinal has another arity: if NO closure of that arity is left unclaimed the annotated
    # closure is gone (e.g. `ITEM.update(|c| ..)` rewritten as load + save): there is nothing to annotate and the function's contract decides;
    # otherwise one of them may be the annotated closure, renamed and moved, and verifying it bare could fail for want of its annotation
    claimed = [w for w in (others or []) if w is not None]
    loose = [c for c in closures if len(_closure_params(c, src)) == len(want) and _closure_params(c, src) not in claimed]
    if not loose:
        ed.log.append({"file": relpath, "line": line, "rule": "A1", "note": f"closure annotation #{k} of {where} not applied: no closure with parameters {want} (or any unclaimed one of that arity) is left"})
        return None
    raise Inconclusive(f"anchor lost: closure #{k} of {where} (annotation written for parameters {want})")


def _rename_words(text, ren):
    for a, b in ren.items():
        if a != b:
            text = re.sub(r"\b%s\b" % re.escape(a), b, text)
    return text


def _closure_params(c, src):
    out = []
    for p in c["params"]:
        t = src[p["span"][0]:p["span"][1]].decode().strip()
        t = t.split(":")[0].strip().lstrip("&").strip()
        t = re.sub(r"^mut\s+", "", t)
        out.append(t)
    return out


def _check_loops_covered(loops, ann, qual, inside=lambda sp: True, cut=None):
    """Every real loop of an extracted function must carry an annotation (an invariant): a loop the unit does not know about (added by an
    edit, or an iterator chain rewritten as a loop) cannot be verified, and a proof that fails for want of an invariant is not a violation."""
    covered = set()
    for key in ("loops", "forloops", "loopheads", "looptails"):
        for k in (ann.get(key) or {}):
            covered.add(int(str(k).split()[0]))
    for j, l in enumerate(loops):
        if not inside(l["span"]) or (cut is not None and l["span"][0] >= cut):
            continue
        if j not in covered:
            raise Inconclusive(f"loop #{j} of {qual} has no invariant annotation (a loop the unit was not written for)")


def _pick_let(lets, key, src, qual, inside=lambda sp: True):
    """Resolve a `//@before` / `//@after` anchor: `name` (first let of that name), `name#k` (k-th), or `name~TEXT` (the unique let of that
    name whose statement contains TEXT, whitespace-insensitive: survives lets of the same name being added, removed or renamed elsewhere)."""
    occ, want = 0, None
    name = key
    if "~" in key:
        name, want = key.split("~", 1)
        want = re.sub(r"\s+", "", want)
    elif "#" in key:
        name, occ = key.split("#"); occ = int(occ)
    hits = [l for l in lets if l["name"] == name.strip() and inside(l["span"])]
    if want is not None:
        hits = [l for l in hits if want in re.sub(r"\s+", "", src[l["span"][0]:l["span"][1]].decode())]
        if len(hits) != 1:
            raise Inconclusive(f"anchor lost: let {key} of {qual} ({len(hits)} candidates)")
        return hits[0]
    if "#" not in key and len(hits) > 1:
        # a plain name must be unique: with several lets of that name the hint could land on the wrong one (a failed hint is not a violation)
        raise Inconclusive(f"anchor lost: let {key} of {qual} is ambiguous ({len(hits)} lets of that name; use name~TEXT)")
    if occ >= len(hits):
        raise Inconclusive(f"anchor lost: let {key} of {qual}")
    return hits[occ]


def apply_ref_closure_params(ed, closures, src, ann):
    """R1 (reference patterns): a closure parameter `&name` (pattern destructuring the reference the caller passes) is spelled
    `verif_r_name` with `let name = *verif_r_name;` as first statement of the body - Verus rejects reference patterns in closure
    parameters. Closures consumed by a loop desugaring (D2/D16/D17/D19) are left to that rule."""
    taken = set()
    for key in ("maploops", "anyloops", "findloops", "posloops", "findmuts", "findmutlets"):
        for k in (ann.get(key) or {}):
            taken.add(int(str(k).split()[0]))
    for idx, c in enumerate(closures):
        if idx in taken:
            continue
        binds = []
        for p in c["params"]:
            t = src[p["span"][0]:p["span"][1]].decode().strip()
            m = re.match(r"^&\s*(\w+)$", t)
            if m:
                ed.add(p["span"][0], p["span"][1], f"verif_r_{m.group(1)}", "R1", f"closure parameter `&{m.group(1)}` spelled as a reference + `let {m.group(1)} = *..`")
                binds.append(f"let {m.group(1)} = *verif_r_{m.group(1)}; ")
            elif t.startswith("(") and t.endswith(")"):
                # tuple pattern: Verus accepts only variables as closure parameters; the same pattern is bound by a `let` (same binding modes)
                nm = f"verif_cp{idx}_{len(binds)}"
                ed.add(p["span"][0], p["span"][1], nm, "R1", f"closure parameter pattern `{t}` spelled as a variable + `let {t} = ..`")
                binds.append(f"let {t} = {nm}; ")
        if binds:
            if c["body_is_block"]:
                ed.add(c["body"][0] + 1, c["body"][0] + 1, " " + "".join(binds), None)
            else:
                already = idx in {_closure_key(k)[0] for k in (ann.get("closures") or {})}
                ed.add(c["body"][0], c["body"][0], ("" if already else "{ ") + "".join(binds), None)
                if not already:
                    ed.add(c["body"][1], c["body"][1], " }", None)


def apply_posloops(ed, it, closures, src, ann, qual):
    """D17 (index form): `X.iter().position(|p| COND)` -> a block holding an index loop over X that stops at the first element satisfying
    COND (copied by span) and yields `Option<usize>` (`//@posloop k`; invariant supplied by the annotation)."""
    for k, inv in (ann.get("posloops") or {}).items():
        k = int(k)
        if k >= len(closures):
            raise Inconclusive(f"anchor lost: closure #{k} of {qual} (posloop)")
        c = closures[k]
        mp = [m for m in it["mcalls"] if m["name"] == "position" and len(m["args"]) == 1 and m["args"][0] == c["span"]]
        if len(mp) != 1 or len(c["params"]) != 1:
            raise Inconclusive(f"D17: closure #{k} of {qual} is not the argument of a .position(|p| ..) call")
        mp = mp[0]
        itc = [m for m in it["mcalls"] if m["name"] == "iter" and m["span"][1] == mp["recv_end"]]
        if len(itc) != 1:
            raise Inconclusive(f"D17: .position of closure #{k} in {qual} is not of the shape X.iter().position(..)")
        itc = itc[0]
        xsrc = src[itc["span"][0]:itc["recv_end"]].decode()
        ptxt = src[c["params"][0]["span"][0]:c["params"][0]["span"][1]].decode().strip()
        if ptxt.startswith("&"):
            ptxt = ptxt[1:].strip()
        b0, b1 = c["body"]
        head = ("{ let verif_pv = &" + xsrc + "; let mut verif_pos: Option<usize> = None; let mut verif_pi: usize = 0;\n"
                "while verif_pi < verif_pv.len()\n" + inv.rstrip() + "\n    decreases verif_pv.len() - verif_pi\n"
                "{ let " + ptxt + " = &verif_pv[verif_pi]; if ")
        ed.add(itc["span"][0], b0, head, "D17", f"`{xsrc.strip()[:30]}.iter().position(..)` desugared to an index loop stopping at the first match (closure body copied by span)")
        ed.add(b1, mp["span"][1], " { verif_pos = Some(verif_pi); break; } verif_pi = verif_pi + 1; } verif_pos }", None)


def apply_findmuts(ed, it, closures, src, ann, qual):
    """D19: `if let Some(NAME) = X.iter_mut().find(|p| COND) { NAME.F = EXPR; } [else ..]` -> an index loop over X that stops at the first
    element satisfying COND (copied by span) and yields its index; the THEN block works on a clone of X[idx] that is written back with
    `X.set(idx, NAME)` at its end. Accepted only when THEN is that single field assignment (EXPR, with any `?`, is evaluated before the
    write in both forms, so no partial update can be observed)."""
    for k, inv in (ann.get("findmuts") or {}).items():
        k = int(k)
        if k >= len(closures):
            raise Inconclusive(f"anchor lost: closure #{k} of {qual} (findmut)")
        c = closures[k]
        mp = [m for m in it["mcalls"] if m["name"] == "find" and len(m["args"]) == 1 and m["args"][0] == c["span"]]
        if len(mp) != 1 or len(c["params"]) != 1:
            raise Inconclusive(f"D19: closure #{k} of {qual} is not the argument of a .find(|p| ..) call")
        mp = mp[0]
        itc = [m for m in it["mcalls"] if m["name"] == "iter_mut" and m["span"][1] == mp["recv_end"]]
        if len(itc) != 1:
            raise Inconclusive(f"D19: .find of closure #{k} in {qual} is not of the shape X.iter_mut().find(..)")
        itc = itc[0]
        xsrc = src[itc["span"][0]:itc["recv_end"]].decode().strip()
        if not re.match(r"^\w+$", xsrc):
            raise Inconclusive(f"D19: `{xsrc[:30]}` is not a plain local vector")
        line_start = src.rfind(b"\n", 0, itc["span"][0]) + 1
        pre = src[line_start:itc["span"][0]].decode()
        mm = re.match(r"^(\s*)if\s+let\s+Some\(\s*(\w+)\s*\)\s*=\s*$", pre)
        if not mm:
            raise Inconclusive(f"D19: the find of closure #{k} in {qual} is not the scrutinee of a statement `if let Some(name) = ..`")
        name = mm.group(2)
        if_start = line_start + len(mm.group(1))
        rest = src[mp["span"][1]:]
        off = len(rest) - len(rest.lstrip())
        if rest[off:off + 1] != b"{":
            raise Inconclusive(f"D19: no block after the find of closure #{k} in {qual}")
        then = [b for b in it["blocks"] if b["span"][0] == mp["span"][1] + off]
        if len(then) != 1 or len(then[0]["stmts"]) != 1:
            raise Inconclusive(f"D19: THEN block of the find-mut #{k} in {qual} is not a single statement")
        then = then[0]
        st = src[then["stmts"][0]["span"][0]:then["stmts"][0]["span"][1]].decode()
        if not re.match(r"^" + name + r"\.\w+\s*=[^=]", st) or ("*" + name) in st:
            raise Inconclusive(f"D19: THEN block of the find-mut #{k} in {qual} is not `{name}.field = EXPR;`")
        ptxt = src[c["params"][0]["span"][0]:c["params"][0]["span"][1]].decode().strip()
        b0, b1 = c["body"]
        cond = src[b0:b1].decode()
        hit = (ann.get("findmuthits") or {}).get(str(k), "").strip()
        ext = (ann.get("findmutexits") or {}).get(str(k), "").strip()
        loop = (f"let mut verif_mh{k}: Option<usize> = None; let mut verif_mi{k}: usize = 0;\n"
                f"while verif_mi{k} < {xsrc}.len()\n" + inv.rstrip() + f"\n    decreases {xsrc}.len() - verif_mi{k}\n"
                f"{{ let {ptxt} = &{xsrc}[verif_mi{k}]; if {cond} {{ verif_mh{k} = Some(verif_mi{k}); {hit} break; }} verif_mi{k} = verif_mi{k} + 1; }} {ext}\n")
        ed.add(if_start, mp["span"][1], loop + f"if let Some(verif_mx{k}) = verif_mh{k}", "D19",
               f"`{xsrc}.iter_mut().find(..)` desugared to an index loop yielding the index of the first match (closure body copied by span)")
        ed.add(then["span"][0] + 1, then["span"][0] + 1, f" let mut {name} = {xsrc}[verif_mx{k}].clone(); ", "D19", f"THEN block works on a clone of `{xsrc}[idx]` written back by `set`")
        ed.add(then["span"][1] - 1, then["span"][1] - 1, f" {xsrc}.set(verif_mx{k}, {name}); ", None)


def apply_findmut_lets(ed, it, closures, src, ann, qual):
    """D19 (let form): `let NAME = V.iter_mut().find(|p| COND).ok_or(ERR)?;` immediately followed by `NAME.F = E;` or `NAME.F += E;`
    -> index loop yielding the index of the first match (COND by span), `let idx = found.ok_or(ERR)?;`, and the update performed on a
    clone of `V[idx]` that is written back with `V.set(idx, NAME)` (`+=` spelled `NAME.F = NAME.F + E`). Accepted only in that shape."""
    for k, inv in (ann.get("findmutlets") or {}).items():
        k = int(k)
        if k >= len(closures):
            raise Inconclusive(f"anchor lost: closure #{k} of {qual} (findmutlet)")
        c = closures[k]
        mp = [m for m in it["mcalls"] if m["name"] == "find" and len(m["args"]) == 1 and m["args"][0] == c["span"]]
        if len(mp) != 1 or len(c["params"]) != 1:
            raise Inconclusive(f"D19: closure #{k} of {qual} is not the argument of a .find(|p| ..) call")
        mp = mp[0]
        itc = [m for m in it["mcalls"] if m["name"] == "iter_mut" and m["span"][1] == mp["recv_end"]]
        oko = [m for m in it["mcalls"] if m["name"] == "ok_or" and m["recv_end"] == mp["span"][1] and len(m["args"]) == 1]
        if len(itc) != 1 or len(oko) != 1:
            raise Inconclusive(f"D19: .find of closure #{k} in {qual} is not of the shape V.iter_mut().find(..).ok_or(E)?")
        itc, oko = itc[0], oko[0]
        xsrc = src[itc["span"][0]:itc["recv_end"]].decode().strip()
        if not re.match(r"^\w+$", xsrc):
            raise Inconclusive(f"D19: `{xsrc[:30]}` is not a plain local vector")
        allst = [x for b in it.get("blocks", []) for x in b["stmts"]] + list(it["stmts"])
        lets = [x for x in allst if x["kind"] == "let" and x["span"][0] <= itc["span"][0] and oko["span"][1] <= x["span"][1]]
        if not lets:
            raise Inconclusive(f"D19: find-mut #{k} of {qual} is not the initialiser of a let")
        let = min(lets, key=lambda x: x["span"][1] - x["span"][0])
        ltxt = src[let["span"][0]:let["span"][1]].decode()
        ml = re.match(r"^let\s+(\w+)\s*=", ltxt)
        if not ml or not re.search(r"\?\s*;\s*$", ltxt):
            raise Inconclusive(f"D19: find-mut #{k} of {qual}: expected `let name = ..ok_or(..)?;`")
        name = ml.group(1)
        blk = [b for b in it["blocks"] if any(x["span"] == let["span"] for x in b["stmts"])]
        if len(blk) != 1:
            raise Inconclusive(f"D19: enclosing block of find-mut #{k} in {qual} not found")
        sts = blk[0]["stmts"]
        i = [j for j, x in enumerate(sts) if x["span"] == let["span"]][0]
        if i + 1 >= len(sts):
            raise Inconclusive(f"D19: nothing follows the let of find-mut #{k} in {qual}")
        nx = sts[i + 1]
        ntxt = src[nx["span"][0]:nx["span"][1]].decode().strip()
        mu = re.match(r"^" + name + r"\.(\w+)\s*(\+?=)\s*(.+);$", ntxt, re.S)
        if not mu or ("*" + name) in ntxt:
            raise Inconclusive(f"D19: the statement after find-mut #{k} in {qual} is not `{name}.field = E;` / `{name}.field += E;`")
        fld, op, rhs = mu.group(1), mu.group(2), mu.group(3).strip()
        ptxt = src[c["params"][0]["span"][0]:c["params"][0]["span"][1]].decode().strip()
        b0, b1 = c["body"]
        cond = src[b0:b1].decode()
        err = src[oko["args"][0][0]:oko["args"][0][1]].decode()
        loop = (f"let mut verif_mh{k}: Option<usize> = None; let mut verif_mi{k}: usize = 0;\n"
                f"while verif_mi{k} < {xsrc}.len()\n" + inv.rstrip() + f"\n    decreases {xsrc}.len() - verif_mi{k}\n"
                f"{{ let {ptxt} = &{xsrc}[verif_mi{k}]; if {cond} {{ verif_mh{k} = Some(verif_mi{k}); break; }} verif_mi{k} = verif_mi{k} + 1; }}\n"
                f"let verif_mx{k}: usize = verif_mh{k}.ok_or({err})?;\n")
        upd = f"{name}.{fld} = {name}.{fld} + {rhs};" if op == "+=" else f"{name}.{fld} = {rhs};"
        ext = (ann.get("findmutletexits") or {}).get(str(k), "").strip()
        ed.add(let["span"][0], nx["span"][1], loop + f"{{ let mut {name} = {xsrc}[verif_mx{k}].clone(); {upd} {xsrc}.set(verif_mx{k}, {name}); }}\n{ext}", "D19",
               f"`let {name} = {xsrc}.iter_mut().find(..).ok_or(..)?; {name}.{fld} {op} ..;` desugared to an index loop + update of a clone written back by `set`")


def apply_storage_has(ed, it, src, inside=lambda sp: True):
    """R13: exec calls `X.has(<storage>[, k])` of cw-storage-plus are renamed `has_exec` (the prelude reserves `has` for the spec
    predicate of the same meaning; `has_exec` returns exactly that predicate)."""
    for m in it.get("mcalls", []):
        if m["name"] != "has" or not m["args"] or not inside(m["span"]):
            continue
        a0 = src[m["args"][0][0]:m["args"][0][1]].decode().strip()
        if a0 not in ("deps.storage", "storage", "&*deps.storage", "deps.as_ref().storage"):
            continue
        seg = src[m["recv_end"]:m["args"][0][0]]
        mm = re.search(rb"\.\s*has\s*\(", seg)
        if not mm:
            continue
        ed.add(m["recv_end"] + mm.start(), m["recv_end"] + mm.end(), ".has_exec(", "R13", "storage `has` -> prelude exec name")



_DESTRUCT_ASSIGN = re.compile(rb"(?m)^([ \t]*)\(\s*(\w+)\s*,\s*(\w+)\s*\)\s*=\s*([^;=][^;]*);")


def apply_destructuring_assign(ed, src, s0, e0):
    """D21 (mechanical): `(a, b) = E;` -> `let verif_t = E; a = verif_t.0; b = verif_t.1;` (Verus has no destructuring assignment)."""
    body = src[s0:e0]
    for n, m in enumerate(_DESTRUCT_ASSIGN.finditer(body)):
        a, b, e = m.group(2).decode(), m.group(3).decode(), m.group(4).decode().strip()
        ed.add(s0 + m.start(), s0 + m.end(), m.group(1).decode() + f"let verif_t{n} = {e}; {a} = verif_t{n}.0; {b} = verif_t{n}.1;", "D21", "tuple destructuring assignment spelled out")



def apply_format_macros(ed, it, src, inside=lambda sp: True):
    """R14: `format!(..)` (used for error texts and labels) -> `verif_format()`, an arbitrary String: no contract may depend on the text."""
    for m in it.get("macros", []):
        if m["path"] in ("format", "std::format", "alloc::format") and inside(m["span"]):
            ed.add(m["span"][0], m["span"][1], "verif_format()", "R14", "format!(..) -> arbitrary String")



def _range_chain(it, src, end):
    """D22: recognise `MAP.range(store, START, None, Order::Ascending)[.skip(N)].take(LIMIT)` ending at byte `end`."""
    def call_ending_at(e, name):
        c = [m for m in it["mcalls"] if m["name"] == name and m["span"][1] == e]
        return c[0] if len(c) == 1 else None
    def arg(m, i):
        a = m["args"][i]
        return src[a[0]:a[1]].decode().strip()
    tk = call_ending_at(end, "take")
    if tk is None or len(tk["args"]) != 1:
        return None
    sk = call_ending_at(tk["recv_end"], "skip")
    if sk is not None and len(sk["args"]) != 1:
        return None
    rg = call_ending_at((sk or tk)["recv_end"], "range")
    if rg is None or len(rg["args"]) != 4:
        return None
    desc = arg(rg, 3) == "Order::Descending"
    if arg(rg, 2) != "None" or arg(rg, 3) not in ("Order::Ascending", "Order::Descending") or (desc and arg(rg, 1) != "None"):
        raise Inconclusive("D22: storage range with an upper bound, or descending with a lower bound, is not modelled")
    mexpr = src[rg["span"][0]:rg["recv_end"]].decode().strip()
    skip = arg(sk, 0) if sk is not None else "0"
    pm = call_ending_at(rg["recv_end"], "prefix")
    if pm is not None and len(pm["args"]) == 1 and not desc:
        # prefix form: `MAP.prefix((a, b)).range(store, START, None, Ascending)[.skip(N)].take(LIMIT)`
        mexpr = src[pm["span"][0]:pm["recv_end"]].decode().strip()
        if not re.match(r"^[A-Z_][A-Z0-9_]*$", mexpr):
            raise Inconclusive(f"D22: prefix receiver `{mexpr[:30]}` is not a storage map constant")
        pre = f"let verif_skip: usize = {skip}; let verif_limit: usize = {arg(tk, 0)}; "
        if not arg(pm, 0).startswith("("):
            # 1-component prefix of a 2-component key: only the unbounded, unskipped form is modelled (prelude/prefix1.rs)
            if arg(rg, 1) != "None" or sk is not None:
                raise Inconclusive("D22: 1-component prefix range with a bound or skip is not modelled")
            return {"start": pm["span"][0], "call": f"verif_prefix1_range(&{mexpr}, {arg(rg, 0)}, {arg(pm, 0)}, verif_limit)", "keys": None, "pre": pre,
                    "shape": f"{mexpr}.prefix({arg(pm, 0)}).range(.., None, None, Ascending).take({arg(tk, 0)})"}
        call = f"verif_prefix_range_from(&{mexpr}, {arg(rg, 0)}, {arg(pm, 0)}, {arg(rg, 1)}, verif_skip, verif_limit)"
        return {"start": pm["span"][0], "call": call, "keys": None, "pre": pre,
                "shape": f"{mexpr}.prefix(..).range(.., {arg(rg, 1)}, None, Ascending)" + (f".skip({skip})" if sk is not None else "") + f".take({arg(tk, 0)})"}
    if not re.match(r"^[A-Z_][A-Z0-9_]*$", mexpr):
        raise Inconclusive(f"D22: range receiver `{mexpr[:30]}` is not a storage map constant")
    pre = f"let verif_skip: usize = {skip}; let verif_limit: usize = {arg(tk, 0)}; "
    if desc:
        call = f"verif_range_raw_desc(&{mexpr}, {arg(rg, 0)}, verif_skip, verif_limit)"
        keys = f"range_keys_desc({arg(rg, 0)}.kv@, {mexpr}.ns as int, verif_skip as int, verif_limit as int)"
        return {"start": rg["span"][0], "call": call, "keys": keys, "pre": pre,
                "shape": f"{mexpr}.range(.., None, None, Descending)" + (f".skip({skip})" if sk is not None else "") + f".take({arg(tk, 0)})"}
    call = f"verif_range_raw_asc(&{mexpr}, {arg(rg, 0)}, {arg(rg, 1)}, verif_skip, verif_limit)"
    keys = f"range_keys({arg(rg, 0)}.kv@, {mexpr}.ns as int, {arg(rg, 1)}, verif_skip as int, verif_limit as int)"
    return {"start": rg["span"][0], "call": call, "keys": keys, "pre": pre, "shape": f"{mexpr}.range(.., {arg(rg, 1)}, None, Ascending)" + (f".skip({skip})" if sk is not None else "") + f".take({arg(tk, 0)})"}


def apply_int_min(ed, it, src, inside=lambda sp: True):
    # D18 (mechanical): `RECV.min(CONST)` on a primitive integer (`Ord::min`, a provided trait method Verus cannot specify) -> `verif_ord_min(RECV, CONST)`
    for m in it["mcalls"]:
        if m["name"] != "min" or len(m["args"]) != 1 or not inside(m["span"]):
            continue
        a = src[m["args"][0][0]:m["args"][0][1]].decode().strip()
        if not re.match(r"^([A-Z_][A-Z0-9_]*|\d[\d_]*(u32|u64|usize|u128)?)$", a):
            continue
        ed.add(m["span"][0], m["span"][0], "verif_ord_min(", "D18", f"`.min({a})` on a primitive integer -> verif_ord_min")
        ed.add(m["recv_end"], m["args"][0][0], ", ", None)


_REFPAT = re.compile(rb"if\s+let\s+Some\(\s*\(\s*_\s*,\s*&\(\s*(\w+)\s*,\s*(\w+)\s*\)\s*\)\s*\)\s*=\s*")


def apply_ref_tuple_patterns(ed, src, lo, hi):
    """D24 (mechanical): `if let Some((_, &(A, B))) = EXPR {` -> `if let Some(verif_kv) = EXPR { let A = verif_kv.1.0; let B = verif_kv.1.1;`
    (`_` components are skipped): Verus rejects reference patterns; the bound names are the same copies of the tuple's components."""
    body = src[lo:hi]
    for n, m in enumerate(_REFPAT.finditer(body)):
        a, b = m.group(1).decode(), m.group(2).decode()
        # find the `{` that opens the THEN block: first `{` at nesting depth 0 after the scrutinee
        i, depth = m.end(), 0
        while i < len(body):
            c = body[i:i + 1]
            if c in (b"(", b"["): depth += 1
            elif c in (b")", b"]"): depth -= 1
            elif c == b"{" and depth == 0: break
            i += 1
        if i >= len(body):
            raise Inconclusive("D24: no block after `if let Some((_, &(..)))`")
        ed.add(lo + m.start(), lo + m.end(), f"if let Some(verif_kv{n}) = ", "D24", "reference tuple pattern `Some((_, &(a, b)))` spelled out")
        binds = "".join(f" let {nm} = verif_kv{n}.1.{j};" for j, nm in enumerate((a, b)) if nm != "_")
        ed.add(lo + i + 1, lo + i + 1, binds, None)


_D14 = re.compile(rb"let\s+mut\s+(\w+)\s*=\s*(\w+)\.to_vec\(\)\s*;")
_D12 = re.compile(rb"(\w+)\.sort_by\(\s*\|\s*a\s*,\s*b\s*\|\s*a\.as_bytes\(\)\.cmp\(\s*b\.as_bytes\(\)\s*\)\s*\)\s*;")
_D13 = re.compile(rb"\[\s*(\w+\[\d\])\.as_bytes\(\)\s*,\s*(\w+\[\d\])\.as_bytes\(\)\s*(?:,\s*(\w+\[\d\])\.as_bytes\(\)\s*)?,?\s*\]\s*\.concat\(\)(\s*\.as_slice\(\)\s*\.to_vec\(\))?")


def apply_sort_concat(ed, src, lo, hi):
    """D12-D14 (mechanical, whatever the locals are called): `let mut A = B.to_vec();` -> `B.verif_to_vec()`; `A.sort_by(|a, b|
    a.as_bytes().cmp(b.as_bytes()));` -> `verif_sort_by_bytes(&mut A);`; `[X[i].as_bytes(), ..].concat()[.as_slice().to_vec()]` ->
    `verif_concat2/3(..)` (prelude/misc.rs: ASSUMED contracts of the std slice functions on 2 or 3 byte strings)."""
    body = src[lo:hi]
    for m in _D14.finditer(body):
        ed.add(lo + m.start(), lo + m.end(), f"let mut {m.group(1).decode()} = {m.group(2).decode()}.verif_to_vec();", "D14", "`x.to_vec()` on an array/slice local -> verif_to_vec (element-wise clone)")
    for m in _D12.finditer(body):
        ed.add(lo + m.start(), lo + m.end(), f"verif_sort_by_bytes(&mut {m.group(1).decode()});", "D12", "`v.sort_by(|a, b| a.as_bytes().cmp(b.as_bytes()))` -> verif_sort_by_bytes")
    for m in _D13.finditer(body):
        args = [g.decode() + ".as_bytes()" for g in (m.group(1), m.group(2), m.group(3)) if g]
        ed.add(lo + m.start(), lo + m.end(), f"verif_concat{len(args)}(" + ", ".join(args) + ")", "D13", "`[a, b(, c)].concat()` on byte strings -> verif_concat2/3")


def apply_admin_set(ed, it, src, inside=lambda sp: True):
    # R15: `ADMIN.set(deps.branch(), X)` -> `ADMIN.set_in(deps.storage, X)` (Verus cannot relate the nested `&mut` of a re-borrowed DepsMut;
    # cw-controllers' Admin::set writes storage only)
    for m in it["mcalls"]:
        if m["name"] != "set" or len(m["args"]) != 2 or not inside(m["span"]):
            continue
        a0 = src[m["args"][0][0]:m["args"][0][1]].decode().strip()
        recv = src[m["span"][0]:m["recv_end"]].decode().strip()
        if a0 != "deps.branch()" or not re.match(r"^[A-Z_]+$", recv):
            continue
        ed.add(m["recv_end"], m["args"][0][1], ".set_in(deps.storage", "R15", "`ADMIN.set(deps.branch(), ..)` -> `ADMIN.set_in(deps.storage, ..)`")


def apply_be_vec(ed, it, src, inside=lambda sp: True):
    # D14 (mechanical): `EXPR.to_be_bytes().to_vec()` -> `verif_u64_be_vec(EXPR)` (u64 only: another integer type fails to type-check)
    for m in it["mcalls"]:
        if m["name"] != "to_vec" or m["args"] or not inside(m["span"]):
            continue
        be = [b for b in it["mcalls"] if b["name"] == "to_be_bytes" and not b["args"] and b["span"][1] == m["recv_end"]]
        if len(be) != 1:
            continue
        be = be[0]
        recv = src[be["span"][0]:be["recv_end"]].decode()
        ed.add(m["span"][0], m["span"][1], f"verif_u64_be_vec({recv})", "D14", "`x.to_be_bytes().to_vec()` -> verif_u64_be_vec(x)")


def apply_range_next(ed, it, src, inside=lambda sp: True):
    # D23 (mechanical): `MAP.range(store, None, None, Order::Descending|Ascending).next()` -> verif_range_last / verif_range_first
    for m in it["mcalls"]:
        if m["name"] != "next" or m["args"] or not inside(m["span"]):
            continue
        rg = [r for r in it["mcalls"] if r["name"] == "range" and r["span"][1] == m["recv_end"] and len(r["args"]) == 4]
        if len(rg) != 1:
            continue
        rg = rg[0]
        a = [src[x[0]:x[1]].decode().strip() for x in rg["args"]]
        mexpr = src[rg["span"][0]:rg["recv_end"]].decode().strip()
        if a[1] != "None" or a[2] != "None" or a[3] not in ("Order::Ascending", "Order::Descending") or not re.match(r"^[A-Z_][A-Z0-9_]*$", mexpr):
            raise Inconclusive("D23: `.range(..).next()` with bounds is not modelled")
        fn = "verif_range_last" if a[3] == "Order::Descending" else "verif_range_first"
        ed.add(m["span"][0], m["span"][1], f"{fn}(&{mexpr}, {a[0]})", "D23", f"`{mexpr}.range(.., None, None, {a[3][7:]}).next()` -> {fn} (prelude/range.rs)")


def apply_bound_ctor_maps(ed, src, lo, hi):
    # D7 (mechanical): `.map(Bound::ExclusiveRaw)` / `.map(Bound::InclusiveRaw)` eta-expanded with the constructor's meaning as closure contract
    body = src[lo:hi].decode()
    for mm in re.finditer(r"\.map\(\s*Bound::(ExclusiveRaw|InclusiveRaw)\s*\)", body):
        v = mm.group(1)
        ed.add(lo + mm.start(), lo + mm.end(),
               f".map(|verif_b: Vec<u8>| -> (verif_bd: Bound) ensures verif_bd == Bound::{v}(verif_b) {{ Bound::{v}(verif_b) }})",
               "D7", f"`.map(Bound::{v})` eta-expanded")


def apply_maploops(ed, it, closures, src, ann, qual, relpath):
    # D2: `X.into_iter()/.iter().map(|p| { BODY; Ok(p) | EXPR }).collect[::<..>]()[?]` -> index loop over X with BODY copied by span
    for k, inv in (ann.get("maploops") or {}).items():
        elem_ty = None
        if " " in str(k).strip():
            k, elem_ty = str(k).split(None, 1)
        k = int(k)
        if k >= len(closures):
            raise Inconclusive(f"anchor lost: closure #{k} of {qual} (maploop)")
        def map_of(c):
            mp = [m for m in it["mcalls"] if m["name"] == "map" and len(m["args"]) == 1 and m["args"][0] == c["span"]]
            return mp if (len(mp) == 1 and len(c["params"]) == 1 and c["body_is_block"] and c["body_stmts"]) else None
        if map_of(closures[k]) is None:
            # a closure written earlier in the function shifts the ordinals: the annotation moves to the next closure that IS a `.map(|p| {..})` argument
            later = [j for j in range(k + 1, len(closures)) if map_of(closures[j]) is not None]
            if not later:
                raise Inconclusive(f"D2: closure #{k} of {qual} is not the argument of a .map(|p| {{..}}) call")
            ed.log.append({"file": relpath, "line": _srcline(src, closures[later[0]]["span"][0]), "rule": "D2", "note": f"maploop annotation #{k} of {qual} applied to closure #{later[0]} (closure #{k} is not a .map block closure)"})
            k = later[0]
        c = closures[k]
        mp = map_of(c)
        mp = mp[0]
        try_tail = False
        if elem_ty and elem_ty.rstrip().endswith(" try"):
            elem_ty, try_tail = elem_ty.rstrip()[:-4].rstrip(), True
        itc = [m for m in it["mcalls"] if m["name"] in ("into_iter", "iter") and m["span"][1] == mp["recv_end"]]
        col = [m for m in it["mcalls"] if m["name"] == "collect" and m["recv_end"] == mp["span"][1]]
        rng = None
        if len(itc) != 1 and len(col) == 1:
            rng = _range_chain(it, src, mp["recv_end"])
        if (len(itc) != 1 and rng is None) or len(col) != 1:
            raise Inconclusive(f"D2: .map of closure #{k} in {qual} is not of the shape X.iter()/into_iter().map(..).collect()")
        col = col[0]
        if rng is not None:
            # D22: `MAP.range(store, START, None, Order::Ascending)[.skip(N)].take(LIMIT)` as the source of the map/collect chain
            chain_start, xsrc, by_value = rng["start"], rng["call"], True
            ed.log.append({"file": relpath, "line": _srcline(src, chain_start), "rule": "D22",
                           "note": "storage range iterator `" + rng["shape"] + "` materialised by verif_range_raw_asc (prelude/range.rs: ascending raw-key order, bound, skip, take)"})
        else:
            itc = itc[0]
            chain_start, xsrc, by_value = itc["span"][0], src[itc["span"][0]:itc["recv_end"]].decode(), itc["name"] == "into_iter"
        chain_end = col["span"][1]
        tries = [t for t in it.get("tries", []) if t[0] == chain_start and t[1] == chain_end + 1]
        if tries:
            chain_end += 1
        ptxt = src[c["params"][0]["span"][0]:c["params"][0]["span"][1]].decode()
        bind = (f"let {ptxt} = verif_src.velem(verif_i);" if by_value
                else f"let {ptxt} = &verif_src[verif_i];")
        bs0, bs1 = c["body"]
        ghost_keys = ""
        if rng is not None and rng.get("keys"):
            ghost_keys = " let ghost verif_keys = " + rng["keys"] + ";"
        head = ("{ " + (rng["pre"] if rng is not None else "") + "let verif_src = " + xsrc + ";" + ghost_keys + " let mut verif_out" + (f": Vec<{elem_ty}>" if elem_ty else "") + " = Vec::new(); let mut verif_i: usize = 0;\n"
                "while verif_i < verif_src.len()\n" + inv.rstrip() + "\n    decreases verif_src.len() - verif_i\n{ " + bind + "\n")
        ed.add(chain_start, bs0 + 1, head, "D2", f"map/collect chain over `{xsrc.strip()[:40]}` desugared to an index loop (closure body copied by span)")
        tail = c["body_stmts"][-1]
        ts, te = tail["span"]
        ttxt = src[ts:te].decode()
        if tail["kind"] != "expr":
            raise Inconclusive(f"D2: closure #{k} of {qual} has no tail expression")
        if re.match(r"^Ok\s*\(", ttxt) and ttxt.rstrip().endswith(")"):
            okp = ts + ttxt.index("(") + 1
            ed.add(ts, okp, "verif_out.push(", "D2", "closure result `Ok(x)` becomes `push(x)`")
            ed.add(te - 1, te, "); verif_i = verif_i + 1;", None)
        elif try_tail:
            ed.add(ts, ts, "verif_out.push((", "D2", "closure result `EXPR` of type Result becomes `push((EXPR)?)` (collect into Result stops at the first Err)")
            ed.add(te, te, ")?); verif_i = verif_i + 1;", None)
        else:
            ed.add(ts, ts, "verif_out.push(", "D2", "closure result becomes `push(..)`")
            ed.add(te, te, "); verif_i = verif_i + 1;", None)
        result_block = (not tries) and (try_tail or bool(re.match(r"^Ok\s*\(", ttxt)))
        if result_block:
            ed.log.append({"file": relpath, "line": _srcline(src, chain_start), "rule": "D2",
                           "note": "collect into Result without `?`: an Err inside the closure now returns from the function immediately (the original returns it at the later `?` on the collected value)"})
        ed.add(bs1, chain_end, " Ok(verif_out) }" if result_block else " verif_out }", None)


def apply_forloops(ed, loops, src, ann, qual):
    # D3: `for PAT in EXPR { BODY }` -> index `while` loop over EXPR (BODY copied by span; `continue` gets the increment)
    for k, inv in (ann.get("forloops") or {}).items():
        optional = str(k).strip().endswith(" opt")
        k = int(str(k).split()[0])
        if k >= len(loops) or loops[k]["kind"] != "for":
            if optional:
                # `//@forloop k opt`: the loop is gone (rewritten without a loop): the function is verified without the invariant
                ed.log.append({"file": "", "line": 0, "rule": "A1", "note": f"for-loop annotation #{k} not applied: {qual} has no such loop any more"})
                continue
            raise Inconclusive(f"anchor lost: for-loop #{k} of {qual}")
        l = loops[k]
        xs, xe = l["iter_expr"]
        xtxt = src[xs:xe].decode().strip()
        ptxt = src[l["pat"][0]:l["pat"][1]].decode()
        mrev = re.match(r"^\(\s*([\w\.\(\)\s\+\-\*]+?)\s*\.\.\s*([\w\.\(\)\s\+\-\*]+?)\s*\)\s*\.\s*rev\(\)$", xtxt)
        if mrev:
            # D3 on a reversed half-open range: `for x in (A..B).rev()` -> descending counter loop
            lo, hi = mrev.group(1).strip(), mrev.group(2).strip()
            b0, b1 = l["body"]
            body_txt = src[b0:b1].decode()
            if re.search(r"\bcontinue\b", body_txt):
                raise Inconclusive(f"D3: reversed range loop #{k} of {qual} with `continue`")
            head = (f"let verif_lo{k} = {lo}; let mut verif_r{k} = {hi};\nwhile verif_r{k} > verif_lo{k}\n" + inv.rstrip()
                    + f"\n    decreases verif_r{k} - verif_lo{k}\n{{ verif_r{k} = verif_r{k} - 1; let {ptxt} = verif_r{k};\n")
            ed.add(l["span"][0], b0 + 1, head, "D3", f"`for {ptxt} in {xtxt[:30]}` desugared to a descending counter loop (body copied by span)")
            continue
        mr = re.match(r"^([\w\.\(\)\s\+\-\*]+?)\s*\.\.(=?)\s*([\w\.\(\)\s\+\-\*]+)$", xtxt)
        if mr and ".." not in mr.group(1) and ".." not in mr.group(3):
            # D3 on an integer range: `for x in A..=B` / `A..B` -> counter loop (the inclusive form stops by comparison, never by overflow)
            lo, incl, hi = mr.group(1).strip(), mr.group(2) == "=", mr.group(3).strip()
            b0, b1 = l["body"]
            step = (f"if verif_r{k} == verif_e{k} {{ break; }} verif_r{k} = verif_r{k} + 1;" if incl else f"verif_r{k} = verif_r{k} + 1;")
            head = (f"let mut verif_r{k} = {lo}; let verif_e{k} = {hi};\nwhile verif_r{k} {'<=' if incl else '<'} verif_e{k}\n" + inv.rstrip()
                    + f"\n    decreases verif_e{k} - verif_r{k}\n{{ let {ptxt} = verif_r{k};\n")
            ed.add(l["span"][0], b0 + 1, head, "D3", f"`for {ptxt} in {xtxt[:30]}` desugared to a counter loop (body copied by span)")
            ed.add(b1 - 1, b1 - 1, " " + step + " ", None)
            body_txt = src[b0:b1].decode()
            if any(o["span"][0] > b0 and o["span"][1] < b1 for o in loops) and re.search(r"\bcontinue\b", body_txt):
                raise Inconclusive(f"D3: for-loop #{k} of {qual} has nested loops and `continue`")
            for mm in re.finditer(r"\bcontinue\s*;", body_txt):
                ed.add(b0 + mm.start(), b0 + mm.end(), "{ " + step + " continue; }", "D3", "continue target made explicit")
            continue
        byref = False
        enum_bind = ""
        me = re.match(r"^(.*)\.enumerate\(\)$", xtxt, re.S)
        if me:
            # D3 on `for (i, x) in X.iter[_mut]().enumerate()`: the counter is the loop index itself
            mp_ = re.match(r"^\(\s*(\w+)\s*,\s*(.+)\)$", ptxt.strip(), re.S)
            if not mp_:
                raise Inconclusive(f"D3: enumerate loop #{k} of {qual} without an `(i, x)` pattern")
            xtxt, ptxt = me.group(1).strip(), mp_.group(2).strip()
            enum_bind = f"let {mp_.group(1)}: usize = verif_i{k}; "
        # D3 on `X.iter()/.into_iter().rev()`: same index loop, the i-th iteration takes the i-th element from the end
        mrv = re.match(r"^(.*)\.rev\(\)$", xtxt, re.S)
        idx = f"verif_i{k}"
        if mrv:
            xtxt = mrv.group(1).strip()
            idx = f"(verif_v{k}.len() - 1 - verif_i{k})"
            if xtxt.endswith(".iter_mut()"):
                raise Inconclusive(f"D3: reversed mutable iteration (loop #{k} of {qual}) is not modelled")
        m = re.match(r"^(.*)\.iter\(\)$", xtxt, re.S)
        if m:
            xtxt, byref = m.group(1), True
        elif xtxt.startswith("&"):
            xtxt, byref = xtxt[1:].strip(), True
        m2 = re.match(r"^(.*)\.into_iter\(\)$", xtxt, re.S)
        if m2:
            xtxt = m2.group(1)
        bind = f"let {ptxt} = &verif_v{k}[{idx}];" if byref else f"let {ptxt} = verif_elem(&verif_v{k}, {idx});"
        b0, b1 = l["body"]
        head = (f"let verif_v{k} = {'&' if byref else ''}{xtxt}; let mut verif_i{k}: usize = 0;\nwhile verif_i{k} < verif_v{k}.len()\n" + inv.rstrip()
                + f"\n    decreases verif_v{k}.len() - verif_i{k}\n{{ {enum_bind}{bind}\n")
        m3 = re.match(r"^(.*)\.iter_mut\(\)$", xtxt, re.S)
        if m3:
            # mutable iteration: the place expression is indexed in place (no binding of the collection)
            place = m3.group(1)
            head = (f"let mut verif_i{k}: usize = 0;\nwhile verif_i{k} < {place}.len()\n" + inv.rstrip()
                    + f"\n    decreases {place}.len() - verif_i{k}\n{{ {enum_bind}let {ptxt} = &mut {place}[verif_i{k}];\n")
        ed.add(l["span"][0], b0 + 1, head, "D3", f"`for {ptxt} in {xtxt[:30]}` desugared to an index loop (body copied by span)")
        # (a body whose last statement has no trailing `;` gets one)
        lead = "" if re.search(rb";\s*$", src[b0:b1 - 1]) else ";"
        ed.add(b1 - 1, b1 - 1, f"{lead} verif_i{k} = verif_i{k} + 1; ", None)
        body_txt = src[b0:b1].decode()
        for mm in re.finditer(r"\bcontinue\s*;", body_txt):
            # only `continue`s of THIS loop: reject nested loops inside the body
            ed.add(b0 + mm.start(), b0 + mm.end(), f"{{ verif_i{k} = verif_i{k} + 1; continue; }}", "D3", "continue target made explicit")
        if any(o["span"][0] > b0 and o["span"][1] < b1 for o in loops) and re.search(r"\bcontinue\b", body_txt):
            raise Inconclusive(f"D3: for-loop #{k} of {qual} has nested loops and `continue`")


def extract_segment(relpath, qual, ann):
    """M4 - statement-range slice: top-level statements [from..to) of a function become a standalone function whose
    parameters are the free locals (declared in the unit). Everything before `from` is dropped: the parameters are
    arbitrary, i.e. the contract holds for every state/values that can reach this point."""
    it, parent, src = find_item(relpath, qual, ("fn",))
    if ann.get("before_stmt"):
        raise Inconclusive(f"//@before_stmt is not available in M4 segments ({ann.get('seg_name')}): use //@segtail, //@after <let> or a loop hook")
    def norm(x): return re.sub(r"\s+", " ", src[x["span"][0]:x["span"][1]].decode())
    # the block (top-level body or a nested block) that owns the unique statement starting with `from`
    cands = [("top", it["stmts"])] + [("nested", b["stmts"]) for b in it.get("blocks", [])]
    # `from_after=`: the segment starts at the statement FOLLOWING the unique statement that starts with the prefix
    after = ann.get("seg_from_after")
    seg_from = after or ann["seg_from"]
    owners = [(kind, stl) for (kind, stl) in cands if sum(1 for x in stl if norm(x).startswith(seg_from)) == 1]
    total = sum(sum(1 for x in stl if norm(x).startswith(seg_from)) for (_, stl) in cands)
    if not owners or total != 1:
        raise Inconclusive(f"anchor lost: M4 segment from={seg_from!r} matches {total} statements of {qual}")
    nested_block = owners[0][0] == "nested"
    st = owners[0][1]
    def find_stmt(prefix, what):
        hits = [k for k, x in enumerate(st) if norm(x).startswith(prefix)]
        if len(hits) != 1:
            raise Inconclusive(f"anchor lost: M4 segment {what}={prefix!r} matches {len(hits)} statements of the block in {qual}")
        return hits[0]
    # `from_block_start=1`: the segment is everything from the FIRST statement of the block that owns the `to` statement (a loop body from
    # its top: whatever is done before the first loop-control statement is inside the segment, wherever it is written)
    k0 = 0 if ann.get("seg_from_block_start") else find_stmt(seg_from, "from") + (1 if after else 0)
    k1 = find_stmt(ann["seg_to"], "to") if ann.get("seg_to") else len(st)
    if k1 <= k0:
        raise Inconclusive(f"M4 segment of {qual}: empty range")
    s0, e0 = st[k0]["span"][0], st[k1 - 1]["span"][1]
    # reuse the fn-level machinery on a pseudo item restricted to the range
    ed = Edits(src, s0, e0, relpath)
    def inside(sp): return s0 <= sp[0] and sp[1] <= e0
    n = 0
    for c in it.get("closures", []):
        if not inside(c["span"]): continue
        for pp in c["params"]:
            if pp["wild"]:
                ed.add(pp["span"][0], pp["span"][1], f"_p{n}", "R1"); n += 1
    seg_closures = [c for c in it.get("closures", []) if inside(c["span"])]
    apply_ref_closure_params(ed, seg_closures, src, ann)
    for k, ctext in (ann.get("closures") or {}).items():
        k, want = _closure_key(k)
        _others = [_closure_key(k2)[1] for k2 in (ann.get("closures") or {}) if _closure_key(k2)[0] != k]
        res = _resolve_closure(seg_closures, k, want, src, f"segment of {qual}", ed, relpath, _srcline(src, s0), _others)
        if res is None:
            if want:
                continue
            raise Inconclusive(f"anchor lost: closure #{k} of segment of {qual}")
        k, ren = res
        ctext = _rename_words(ctext, ren)
        c = seg_closures[k]
        CLOSURE_SEEN.append((ann.get("seg_name") or qual, k, _closure_params(c, src)))
        if c["ret"] is not None:
            ed.add(c["or2_end"], c["ret"][1], " " + ctext.strip() + " ", "A1")
        else:
            ed.add(c["or2_end"], c["or2_end"], " " + ctext.strip() + " ", "A1")
        if not c["body_is_block"]:
            ed.add(c["body"][0], c["body"][0], "{ ", "A1"); ed.add(c["body"][1], c["body"][1], " }", "A1")
    if ann.get("drop_response_attrs", True):
        for m in it.get("mcalls", []):
            if m["name"] in ATTR_RESP_METHODS and inside(m["span"]):
                ed.add(m["recv_end"], m["span"][1], "", "R6", "." + m["name"] + "(..) removed")
    for a in it.get("inner_attrs", []):
        if not inside(a["span"]): continue
        if a["path"] == "cfg":
            if eval_cfg(a["text"]):
                ed.add(a["span"][0], a["span"][1], "", "R3", "cfg true: " + a["text"])
            else:
                o = a["owner"]; end = o[1]
                mm = re.match(rb"\s*[,;]", src[end:end + 8])
                if mm: end += mm.end()
                ed.add(a["span"][0], end, "", "R3", "cfg false dropped: " + a["text"])
        elif a["path"] in ("allow", "doc"):
            ed.add(a["span"][0], a["span"][1], "", None)
    for name, ptext in (ann.get("before_let") or {}).items():
        h = _pick_let(it["lets"], name, src, f"segment of {qual}", inside)
        ed.add(h["span"][0], h["span"][0], ptext.rstrip() + "\n", "A1")
    for name, ptext in (ann.get("after_let") or {}).items():
        h = _pick_let(it["lets"], name, src, f"segment of {qual}", inside)
        ed.add(h["span"][1], h["span"][1], "\n" + ptext.rstrip() + "\n", "A1")
    for (rule, old, new) in ann.get("replaces") or []:
        ob = old.strip().encode(); body = src[s0:e0]; cnt = body.count(ob)
        every = rule.endswith(" all"); optional = rule.endswith(" opt"); rule = rule.split()[0]
        if cnt == 0 and optional:
            continue
        if cnt < 1 or (cnt != 1 and not every):
            raise Inconclusive(f"anchor lost: rewrite {rule} snippet found {cnt} times in segment of {qual}")
        pos = 0
        while True:
            q = body.find(ob, pos)
            if q < 0: break
            ed.add(s0 + q, s0 + q + len(ob), new.strip(), rule, "catalogue desugaring: " + old.strip()[:60]); pos = q + len(ob)
    seg_loops = [l for l in it.get("loops", []) if inside(l["span"])]
    # D15: the segment is (part of) a loop body: `break;` / `continue;` of the ENCLOSING loop become return codes of the segment function
    if ann.get("seg_brk") or ann.get("seg_cont"):
        if seg_loops:
            raise Inconclusive(f"D15: segment of {qual} contains loops; break/continue cannot be attributed")
        body = src[s0:e0].decode()
        for kw, key in (("break", "seg_brk"), ("continue", "seg_cont")):
            for mm in re.finditer(r"\b" + kw + r"\s*;", body):
                if not ann.get(key):
                    raise Inconclusive(f"D15: segment of {qual} has `{kw}` but no return code was declared for it")
                ed.add(s0 + mm.start(), s0 + mm.end(), f"return Ok({ann[key]});", "D15", f"`{kw}` of the enclosing loop becomes a return code of the segment")
    for k, ptext in (ann.get("loopheads") or {}).items():
        k = int(k)
        if k >= len(seg_loops): raise Inconclusive(f"anchor lost: loop #{k} of segment of {qual}")
        ed.add(seg_loops[k]["body"][0] + 1, seg_loops[k]["body"][0] + 1, "\n" + ptext.rstrip() + "\n", "A1")
    for k, ptext in (ann.get("looptails") or {}).items():
        k = int(k)
        if k >= len(seg_loops): raise Inconclusive(f"anchor lost: loop #{k} of segment of {qual}")
        ed.add(seg_loops[k]["body"][1] - 1, seg_loops[k]["body"][1] - 1, "\n" + ptext.rstrip() + "\n", "A1")
    _check_loops_covered(seg_loops, ann, f"segment {ann.get('seg_name')} of {qual}")
    apply_maploops(ed, it, seg_closures, src, ann, qual, relpath)
    apply_forloops(ed, seg_loops, src, ann, qual)
    apply_fund_sums(ed, src, s0, e0)
    apply_bound_ctor_maps(ed, src, s0, e0)
    apply_int_min(ed, it, src, inside)
    apply_range_next(ed, it, src, inside)
    apply_be_vec(ed, it, src, inside)
    apply_admin_set(ed, it, src, inside)
    apply_sort_concat(ed, src, s0, e0)
    apply_ref_tuple_patterns(ed, src, s0, e0)
    apply_destructuring_assign(ed, src, s0, e0)
    apply_format_macros(ed, it, src, inside)
    apply_storage_has(ed, it, src, inside)
    apply_anyloops(ed, it, seg_closures, src, ann, qual)
    apply_findloops(ed, it, seg_closures, src, ann, qual)
    apply_posloops(ed, it, seg_closures, src, ann, qual)
    apply_findmuts(ed, it, seg_closures, src, ann, qual)
    apply_findmut_lets(ed, it, seg_closures, src, ann, qual)
    if ann.get("tail") and k1 == len(st):
        ed.add(st[-1]["span"][0], st[-1]["span"][0], ann["tail"].rstrip() + "\n", "A1")
    body_text, segs = ed.render()
    labels = []
    spec = []
    if ann.get("requires"):
        spec.append("    requires\n" + ann["requires"].rstrip() + "\n")
    if ann.get("ensures"):
        spec.append("    ensures\n")
        for (label, text) in ann["ensures"]:
            t = text.strip()
            if not t.endswith(","): t += ","
            spec.append(f"        /*@L {label}*/ {t}\n"); labels.append(label)
    rs, re_ = it["ret"] if it["ret"] else (None, None)
    rett = src[rs:re_].decode() if rs is not None else "()"
    if k1 != len(st) or (nested_block and ann.get("seg_ret")):
        rett = ann.get("seg_ret", rett)
    name = ann["seg_name"]
    retname = ann.get("ret", "r")
    params = ann["seg_params"].strip()
    for op in [x.strip() for x in (ann.get("seg_optparams") or "").split(";") if x.strip()]:
        # a local the segment normally declares itself: if its `let` has moved out of the range it is a value computed BEFORE the
        # segment, i.e. an arbitrary parameter (the contract must then hold for every value of it)
        nm = re.match(r"^(?:mut\s+)?(\w+)\s*:", op).group(1)
        if not re.search(r"\blet\s+(mut\s+)?" + nm + r"\b", body_text):
            params = params.rstrip(", ") + ", " + op
            ed.log.append({"file": relpath, "line": _srcline(src, s0), "rule": "M4", "note": f"`{nm}` is no longer declared inside the range: taken as an arbitrary parameter of `{ann['seg_name']}`"})
    head = f"pub fn {name}({params}) -> ({retname}: {rett})\n" + "".join(spec) + "{\n" + (ann.get("head", "").rstrip() + "\n" if ann.get("head") else "")
    tailtxt = ("\n" + ann["seg_tail"].rstrip() if ann.get("seg_tail") else "") + "\n}\n"
    if auto_inline_map():
        body_text = apply_auto_inline(body_text, relpath, ed.log)
    lm0 = line_map(body_text, segs, src)
    text = head + body_text + tailtxt
    lm = [None] * head.count("\n") + lm0 + [None] * (tailtxt.count("\n") + 1)
    ed.log.append({"file": relpath, "line": _srcline(src, s0), "rule": "M4",
                   "note": ("(inside a nested block whose value is the function's result) " if nested_block else "") + f"statements {k0}..{k1 - 1} of {qual} extracted as `{name}`; the {k0} statements before are dropped (their effects are arbitrary parameter values)" + (f"; the {len(st) - k1} statements after are dropped" if k1 != len(st) else "")})
    for pat, rep in ((r"&mut dyn Storage", "&mut Storage"), (r"&dyn Storage", "&Storage"), (r"&dyn Api", "&Api")):
        text = text.replace(pat, rep)
    fake = dict(it); fake["span"] = [s0, e0]
    return text, lm, src, ed.log, labels, fake


def _subst(text, segs, pat, rep):
    # textual replace keeping the line structure (no newlines in pat/rep), adjust segs approx by lines only
    return text.replace(pat, rep), segs


def wrap_parent(text, parent, lm, inherent=False):
    if parent is None:
        return text, lm
    if parent["kind"] == "impl":
        if parent["trait"] and not inherent:
            return f"impl {parent['trait']} for {parent['self_ty']} {{\n{text}\n}}", [None] + lm + [None]
        return f"impl {parent['self_ty']} {{\n{text}\n}}", [None] + lm + [None]
    raise Inconclusive("trait default methods not supported")


DEFAULT_FEATURES = set()  # the feature set the baseline test-suite builds


def eval_cfg(meta_text):
    """Evaluate cfg(...) for the default feature set (no features on). Returns bool."""
    t = meta_text.strip()
    assert t.startswith("cfg"), t
    inner = t[t.index("(") + 1:t.rindex(")")].strip()
    return _cfg_expr(inner)


def _cfg_expr(e):
    e = e.strip()
    m = re.match(r"^(any|all|not)\s*\((.*)\)$", e, re.S)
    if m:
        parts = [_cfg_expr(p) for p in split_top_commas(m.group(2))]
        if m.group(1) == "any":
            return any(parts)
        if m.group(1) == "all":
            return all(parts)
        return not parts[0]
    m = re.match(r'^feature\s*=\s*"([^"]+)"$', e)
    if m:
        return m.group(1) in DEFAULT_FEATURES
    if e == "test":
        return False
    if e == "debug_assertions":
        return True
    raise Inconclusive("cannot evaluate cfg(" + e + ")")


def extract_type(relpath, name, opts):
    """struct/enum: strip attributes (R3), optionally emit Clone/PartialEq impls with specs (R4)."""
    it, parent, src = find_item(relpath, name, ("struct", "enum"))
    s0, e0 = it["span"]
    ed = Edits(src, s0, e0, relpath)
    derives = []
    for a in it["attrs"]:
        ed.add(a["span"][0], a["span"][1], "", None if a["path"] == "doc" else "R3", "strip #[%s]" % a["text"][:60])
        derives.append(a["text"])

    def strip_fields(fields):
        for f in fields:
            for a in f["attrs"]:
                if a["path"] == "cfg":
                    if eval_cfg(a["text"]):
                        ed.add(a["span"][0], a["span"][1], "", "R3", "cfg true")
                    else:
                        end = f["span"][1]
                        m = re.match(rb"\s*,", src[end:end + 8])
                        if m:
                            end += m.end()
                        ed.add(a["span"][0], end, "", "R3", "cfg false field dropped")
                else:
                    ed.add(a["span"][0], a["span"][1], "", None if a["path"] == "doc" else "R3", "strip field attr")
    if it["kind"] == "struct":
        strip_fields(it["fields"])
        for f in it["fields"]:
            if f["name"] and f["vis"][0] == f["vis"][1]:
                # R11: private field made `pub` so that contracts of pub fns may mention it (visibility only)
                seg = src[f["span"][0]:f["ty_span"][0]]
                m = list(re.finditer(rb"\b" + f["name"].encode() + rb"\s*:", seg))
                if m:
                    pos = f["span"][0] + m[-1].start()
                    ed.add(pos, pos, "pub ", "R11", f"field {f['name']} made pub (visibility only)")
    else:
        for v in it["variants"]:
            dropped = False
            for a in v["attrs"]:
                if a["path"] == "cfg" and not eval_cfg(a["text"]):
                    end = v["span"][1]
                    m = re.match(rb"\s*,", src[end:end + 8])
                    if m:
                        end += m.end()
                    ed.add(a["span"][0], end, "", "R3", "cfg false variant dropped")
                    dropped = True
                else:
                    ed.add(a["span"][0], a["span"][1], "", None if a["path"] == "doc" else "R3", "strip variant attr")
            if not dropped:
                strip_fields(v["fields"])
    text, segs = ed.render()
    if not text.lstrip().startswith("pub"):
        text = "pub " + text.lstrip()
        ed.log.append({"file": relpath, "line": _srcline(src, s0), "rule": "R11", "note": f"private type {it['name']} made pub (visibility only)"})
    extra = []
    nm = it["name"]
    if opts.get("clone", True):
        extra.append(f"impl Clone for {nm} {{ #[verifier::external_body] fn clone(&self) -> (r: Self) ensures r == *self {{ unimplemented!() }} }}")
    if opts.get("copy"):
        extra.append(f"impl Copy for {nm} {{}}")
    if opts.get("eq"):
        extra.append(
            f"impl PartialEqSpecImpl for {nm} {{ open spec fn obeys_eq_spec() -> bool {{ true }} open spec fn eq_spec(&self, o: &{nm}) -> bool {{ *self == *o }} }}\n"
            f"impl PartialEq for {nm} {{ #[verifier::external_body] fn eq(&self, o: &{nm}) -> (r: bool) ensures r == (*self == *o) {{ unimplemented!() }} }}")
    if it["kind"] == "enum":
        for v in it["variants"]:
            for f in v["fields"]:
                if any(a["path"] == "from" for a in f["attrs"]):
                    ty = f["ty"].replace(" ", "")
                    ctor = f"{nm}::{v['name']}(x)" if v["shape"] == "tuple" else f"{nm}::{v['name']} {{ {f['name']}: x }}"
                    extra.append(
                        f"impl FromSpecImpl<{ty}> for {nm} {{ open spec fn obeys_from_spec() -> bool {{ true }} open spec fn from_spec(x: {ty}) -> {nm} {{ {ctor} }} }}\n"
                        f"impl From<{ty}> for {nm} {{ #[verifier::external_body] fn from(x: {ty}) -> (r: {nm}) {{ unimplemented!() }} }}")
    ed.log.append({"file": relpath, "line": _srcline(src, s0), "rule": "R4",
                   "note": f"{nm}: explicit Clone{'/PartialEq' if opts.get('eq') else ''} impl with spec replaces derive"})
    return text + "\n" + "\n".join(extra) + "\n", segs, src, ed.log, it


def extract_const(relpath, name, opts):
    it, parent, src = find_item(relpath, name, ("const",))
    s0, e0 = it["span"]
    ed = Edits(src, s0, e0, relpath)
    for a in it["attrs"]:
        ed.add(a["span"][0], a["span"][1], "", None)
    if opts.get("storage"):
        # R5: Item::new("ns") / Map::new("ns") -> struct literal with namespace id derived from the literal
        m = re.search(r'(Item|Map|SnapshotMap|Admin|Hooks)\s*::\s*new\s*\(\s*("[^"]*")', it["expr_text"])
        if not m:
            raise Inconclusive(f"R5: {name} is not Item::new/Map::new")
        ns = m.group(2)
        nsid = int(hashlib.sha256(ns.encode()).hexdigest()[:12], 16)
        xs, xe = it["expr"]
        phantom = "" if m.group(1) in ("Admin", "Hooks") else ", _p: core::marker::PhantomData"
        ed.add(xs, xe, f"{m.group(1)} {{ ns: {nsid}{phantom} }} /* ns={ns} */", "R5",
               f"{name} namespace {ns} -> id {nsid}")
    ts, te = it["ty_span"]
    tytext = src[ts:te].decode()
    if re.search(r"&(?!')", tytext):
        ed.add(ts, te, re.sub(r"&(?!')\s*", "&'static ", tytext), "R10", "elided lifetime in a const type spelled 'static (what rustc elides to)")
    if opts.get("expr"):
        xs, xe = it["expr"]
        ed.add(xs, xe, opts["expr"], opts.get("rule", "R5"), "const initialiser replaced: " + opts["expr"])
    text, segs = ed.render()
    if "pub(crate)" in text.split("=")[0]:
        text = text.replace("pub(crate)", "pub", 1)
        ed.log.append({"file": relpath, "line": _srcline(src, s0), "rule": "R11", "note": "pub(crate) -> pub (visibility only)"})
    elif re.match(r"^\s*const\s", text):
        text = re.sub(r"^(\s*)const\s", r"\1pub const ", text, count=1)
        ed.log.append({"file": relpath, "line": _srcline(src, s0), "rule": "R11", "note": "private const made pub (visibility only)"})
    return text + "\n", segs, src, ed.log, it


def src_hash(relpath, span, src):
    return hashlib.sha256(src[span[0]:span[1]]).hexdigest()[:16]
