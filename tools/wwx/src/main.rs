//! wwx: syntactic index of a Rust source file (byte spans of items, functions, closures,
//! loops, statements, attributes, macros, selected method calls) as JSON.
//! The Python assembler (/verif/bin/wwlib) does all text edits using these spans, so every
//! byte of an extracted function that is not covered by a logged rewrite is the repo's byte.
use proc_macro2::Span;
use quote::ToTokens;
use serde_json::{json, Value};
use syn::spanned::Spanned;
use syn::visit::{self, Visit};

fn sp(s: Span) -> Value {
    let r = s.byte_range();
    json!([r.start, r.end])
}
fn attrs_json(attrs: &[syn::Attribute]) -> Value {
    Value::Array(
        attrs
            .iter()
            .map(|a| {
                json!({"span": sp(a.span()), "path": a.path().to_token_stream().to_string().replace(' ', ""),
                       "text": a.meta.to_token_stream().to_string()})
            })
            .collect(),
    )
}

#[derive(Default)]
struct BodyIdx {
    closures: Vec<Value>,
    loops: Vec<Value>,
    lets: Vec<Value>,
    macros: Vec<Value>,
    mcalls: Vec<Value>,
    attrs: Vec<Value>, // attributes on inner stmts / exprs / arms / fields with the owner span
    wild_closure_params: Vec<Value>,
    tries: Vec<Value>,
    arms: Vec<Value>,
    blocks: Vec<Value>,
}
impl BodyIdx {
    fn own_attrs(&mut self, attrs: &[syn::Attribute], owner: Span) {
        for a in attrs {
            self.attrs.push(json!({"span": sp(a.span()), "owner": sp(owner),
                "path": a.path().to_token_stream().to_string().replace(' ', ""),
                "text": a.meta.to_token_stream().to_string()}));
        }
    }
}
impl<'ast> Visit<'ast> for BodyIdx {
    fn visit_expr_closure(&mut self, c: &'ast syn::ExprClosure) {
        let mut params = vec![];
        for p in c.inputs.iter() {
            let wild = matches!(p, syn::Pat::Wild(_));
            params.push(json!({"span": sp(p.span()), "wild": wild}));
            if wild {
                self.wild_closure_params.push(sp(p.span()));
            }
        }
        let ret = match &c.output {
            syn::ReturnType::Default => Value::Null,
            syn::ReturnType::Type(_, t) => sp(t.span()),
        };
        let or2 = c.or2_token.span();
        let body_stmts: Vec<Value> = match &*c.body {
            syn::Expr::Block(b) => b.block.stmts.iter().map(stmt_json).collect(),
            _ => vec![],
        };
        self.closures.push(json!({"span": sp(c.span()), "params": params, "ret": ret,
            "or2_end": or2.byte_range().end, "body_stmts": body_stmts,
            "body": sp(c.body.span()), "body_is_block": matches!(&*c.body, syn::Expr::Block(_))}));
        visit::visit_expr_closure(self, c);
    }
    fn visit_expr_for_loop(&mut self, l: &'ast syn::ExprForLoop) {
        self.own_attrs(&l.attrs, l.span());
        self.loops.push(json!({"kind":"for","span": sp(l.span()), "body": sp(l.body.span()),
             "iter_expr": sp(l.expr.span()), "pat": sp(l.pat.span()),
             "head_end": l.expr.span().byte_range().end}));
        visit::visit_expr_for_loop(self, l);
    }
    fn visit_expr_while(&mut self, l: &'ast syn::ExprWhile) {
        self.loops.push(json!({"kind":"while","span": sp(l.span()), "body": sp(l.body.span()),
             "head_end": l.cond.span().byte_range().end}));
        visit::visit_expr_while(self, l);
    }
    fn visit_expr_loop(&mut self, l: &'ast syn::ExprLoop) {
        self.loops.push(json!({"kind":"loop","span": sp(l.span()), "body": sp(l.body.span()),
             "head_end": l.loop_token.span().byte_range().end}));
        visit::visit_expr_loop(self, l);
    }
    fn visit_local(&mut self, l: &'ast syn::Local) {
        self.own_attrs(&l.attrs, l.span());
        let name = match &l.pat {
            syn::Pat::Ident(i) => i.ident.to_string(),
            syn::Pat::Type(t) => match &*t.pat {
                syn::Pat::Ident(i) => i.ident.to_string(),
                _ => String::new(),
            },
            _ => String::new(),
        };
        self.lets.push(json!({"name": name, "span": sp(l.span())}));
        visit::visit_local(self, l);
    }
    fn visit_macro(&mut self, m: &'ast syn::Macro) {
        self.macros.push(json!({"path": m.path.to_token_stream().to_string().replace(' ', ""),
            "span": sp(m.span()), "args": sp(m.delimiter.span().join())}));
        visit::visit_macro(self, m);
    }
    fn visit_stmt_macro(&mut self, m: &'ast syn::StmtMacro) {
        self.own_attrs(&m.attrs, m.span());
        visit::visit_stmt_macro(self, m);
    }
    fn visit_expr_method_call(&mut self, m: &'ast syn::ExprMethodCall) {
        self.mcalls.push(json!({"name": m.method.to_string(), "span": sp(m.span()),
            "recv_end": m.receiver.span().byte_range().end,
            "args": m.args.iter().map(|a| sp(a.span())).collect::<Vec<_>>()}));
        visit::visit_expr_method_call(self, m);
    }
    fn visit_block(&mut self, b: &'ast syn::Block) {
        self.blocks.push(json!({"span": sp(b.span()), "stmts": b.stmts.iter().map(stmt_json).collect::<Vec<_>>()}));
        visit::visit_block(self, b);
    }
    fn visit_expr_try(&mut self, t: &'ast syn::ExprTry) {
        self.tries.push(sp(t.span()));
        visit::visit_expr_try(self, t);
    }
    fn visit_arm(&mut self, a: &'ast syn::Arm) {
        self.own_attrs(&a.attrs, a.span());
        self.arms.push(json!({"span": sp(a.span()), "pat": sp(a.pat.span()), "body": sp(a.body.span())}));
        visit::visit_arm(self, a);
    }
    fn visit_field_value(&mut self, f: &'ast syn::FieldValue) {
        self.own_attrs(&f.attrs, f.span());
        visit::visit_field_value(self, f);
    }
    fn visit_expr_block(&mut self, b: &'ast syn::ExprBlock) {
        self.own_attrs(&b.attrs, b.span());
        visit::visit_expr_block(self, b);
    }
    fn visit_expr_if(&mut self, b: &'ast syn::ExprIf) {
        self.own_attrs(&b.attrs, b.span());
        visit::visit_expr_if(self, b);
    }
    fn visit_expr_match(&mut self, b: &'ast syn::ExprMatch) {
        self.own_attrs(&b.attrs, b.span());
        visit::visit_expr_match(self, b);
    }
    fn visit_item(&mut self, _i: &'ast syn::Item) {
        // nested items are indexed but not descended for closure/loop ordinals
        match _i {
            syn::Item::Const(c) => {
                self.lets.push(json!({"name": format!("const {}", c.ident), "span": sp(c.span())}));
            }
            _ => {}
        }
    }
}

fn stmt_json(s: &syn::Stmt) -> Value {
    let kind = match s {
        syn::Stmt::Local(_) => "let",
        syn::Stmt::Item(_) => "item",
        syn::Stmt::Expr(_, Some(_)) => "expr;",
        syn::Stmt::Expr(_, None) => "expr",
        syn::Stmt::Macro(_) => "macro",
    };
    json!({"kind": kind, "span": sp(s.span())})
}

fn fn_json(
    attrs: &[syn::Attribute],
    vis: Option<&syn::Visibility>,
    sig: &syn::Signature,
    block: Option<&syn::Block>,
    span: Span,
    qual: &str,
) -> Value {
    let ret = match &sig.output {
        syn::ReturnType::Default => Value::Null,
        syn::ReturnType::Type(_, t) => sp(t.span()),
    };
    let inputs: Vec<Value> = sig
        .inputs
        .iter()
        .map(|a| match a {
            syn::FnArg::Receiver(r) => json!({"name":"self","span":sp(r.span()),"ty":Value::Null, "text": r.to_token_stream().to_string()}),
            syn::FnArg::Typed(t) => {
                json!({"name": t.pat.to_token_stream().to_string(), "span": sp(t.span()), "pat": sp(t.pat.span()), "ty": sp(t.ty.span()),
                       "attrs": attrs_json(&t.attrs)})
            }
        })
        .collect();
    let mut out = json!({
        "kind": "fn", "name": sig.ident.to_string(), "qual": qual, "span": sp(span),
        "attrs": attrs_json(attrs),
        "vis": vis.map(|v| sp(v.span())).unwrap_or(Value::Null),
        "sig": sp(sig.span()), "ret": ret, "inputs": inputs,
        "paren_end": sig.paren_token.span.close().byte_range().end,
        "where": sig.generics.where_clause.as_ref().map(|w| sp(w.span())).unwrap_or(Value::Null),
        "generics": sp(sig.generics.span()),
    });
    if let Some(b) = block {
        let mut idx = BodyIdx::default();
        for s in &b.stmts {
            idx.visit_stmt(s);
        }
        let o = out.as_object_mut().unwrap();
        o.insert("block".into(), sp(b.span()));
        o.insert("stmts".into(), Value::Array(b.stmts.iter().map(stmt_json).collect()));
        o.insert("closures".into(), Value::Array(idx.closures));
        o.insert("loops".into(), Value::Array(idx.loops));
        o.insert("lets".into(), Value::Array(idx.lets));
        o.insert("macros".into(), Value::Array(idx.macros));
        o.insert("mcalls".into(), Value::Array(idx.mcalls));
        o.insert("inner_attrs".into(), Value::Array(idx.attrs));
        o.insert("tries".into(), Value::Array(idx.tries));
        o.insert("arms".into(), Value::Array(idx.arms));
        o.insert("blocks".into(), Value::Array(idx.blocks));
    }
    out
}

fn fields_json(fields: &syn::Fields) -> Value {
    Value::Array(
        fields
            .iter()
            .map(|f| {
                json!({"name": f.ident.as_ref().map(|i| i.to_string()), "span": sp(f.span()),
                       "ty": f.ty.to_token_stream().to_string(), "ty_span": sp(f.ty.span()),
                       "vis": sp(f.vis.span()), "attrs": attrs_json(&f.attrs)})
            })
            .collect(),
    )
}

fn items_json(items: &[syn::Item], prefix: &str, out: &mut Vec<Value>) {
    for it in items {
        match it {
            syn::Item::Fn(f) => {
                let q = format!("{}{}", prefix, f.sig.ident);
                out.push(fn_json(&f.attrs, Some(&f.vis), &f.sig, Some(&f.block), f.span(), &q));
            }
            syn::Item::Impl(im) => {
                let self_ty = im.self_ty.to_token_stream().to_string().replace(' ', "");
                let tr = im.trait_.as_ref().map(|(_, p, _)| p.to_token_stream().to_string().replace(' ', ""));
                let mut fns = vec![];
                for ii in &im.items {
                    match ii {
                        syn::ImplItem::Fn(f) => {
                            let q = match &tr {
                                Some(t) => format!("{}<{} as {}>::{}", prefix, self_ty, t, f.sig.ident),
                                None => format!("{}{}::{}", prefix, self_ty, f.sig.ident),
                            };
                            fns.push(fn_json(&f.attrs, Some(&f.vis), &f.sig, Some(&f.block), f.span(), &q));
                        }
                        syn::ImplItem::Const(c) => {
                            fns.push(json!({"kind":"const","name":c.ident.to_string(),
                               "qual": format!("{}{}::{}", prefix, self_ty, c.ident), "span": sp(c.span()),
                               "attrs": attrs_json(&c.attrs)}));
                        }
                        _ => {}
                    }
                }
                out.push(json!({"kind":"impl","self_ty":self_ty,"trait":tr,"span":sp(im.span()),
                    "attrs": attrs_json(&im.attrs), "brace_open": im.brace_token.span.open().byte_range().start,
                    "items": fns}));
            }
            syn::Item::Struct(s) => {
                out.push(json!({"kind":"struct","name":s.ident.to_string(),"qual":format!("{}{}",prefix,s.ident),
                    "span":sp(s.span()),"attrs":attrs_json(&s.attrs),"fields":fields_json(&s.fields),
                    "generics": s.generics.to_token_stream().to_string(),
                    "tuple": matches!(s.fields, syn::Fields::Unnamed(_))}));
            }
            syn::Item::Enum(e) => {
                let vars: Vec<Value> = e
                    .variants
                    .iter()
                    .map(|v| {
                        json!({"name": v.ident.to_string(), "span": sp(v.span()), "attrs": attrs_json(&v.attrs),
                          "fields": fields_json(&v.fields),
                          "shape": match &v.fields { syn::Fields::Named(_) => "named", syn::Fields::Unnamed(_) => "tuple", syn::Fields::Unit => "unit" }})
                    })
                    .collect();
                out.push(json!({"kind":"enum","name":e.ident.to_string(),"qual":format!("{}{}",prefix,e.ident),
                    "span":sp(e.span()),"attrs":attrs_json(&e.attrs),"variants":vars,
                    "generics": e.generics.to_token_stream().to_string()}));
            }
            syn::Item::Const(c) => {
                out.push(json!({"kind":"const","name":c.ident.to_string(),"qual":format!("{}{}",prefix,c.ident),
                    "span":sp(c.span()),"attrs":attrs_json(&c.attrs),
                    "ty": c.ty.to_token_stream().to_string(), "ty_span": sp(c.ty.span()),
                    "expr": sp(c.expr.span()), "expr_text": c.expr.to_token_stream().to_string()}));
            }
            syn::Item::Type(t) => {
                out.push(json!({"kind":"type","name":t.ident.to_string(),"qual":format!("{}{}",prefix,t.ident),
                    "span":sp(t.span()),"attrs":attrs_json(&t.attrs)}));
            }
            syn::Item::Trait(t) => {
                let mut fns = vec![];
                for ti in &t.items {
                    if let syn::TraitItem::Fn(f) = ti {
                        let q = format!("{}{}::{}", prefix, t.ident, f.sig.ident);
                        fns.push(fn_json(&f.attrs, None, &f.sig, f.default.as_ref(), f.span(), &q));
                    }
                }
                out.push(json!({"kind":"trait","name":t.ident.to_string(),"span":sp(t.span()),
                    "attrs":attrs_json(&t.attrs),"items":fns}));
            }
            syn::Item::Mod(m) => {
                if let Some((_, content)) = &m.content {
                    let is_test = m.attrs.iter().any(|a| a.meta.to_token_stream().to_string().contains("test"));
                    if !is_test {
                        let p = format!("{}{}::", prefix, m.ident);
                        items_json(content, &p, out);
                    }
                }
            }
            syn::Item::Macro(m) => {
                out.push(json!({"kind":"macro","path":m.mac.path.to_token_stream().to_string().replace(' ', ""),
                    "span":sp(m.span()), "attrs": attrs_json(&m.attrs)}));
            }
            _ => {}
        }
    }
}

fn main() {
    let mut res = serde_json::Map::new();
    for p in std::env::args().skip(1) {
        let src = match std::fs::read_to_string(&p) {
            Ok(s) => s,
            Err(e) => {
                res.insert(p.clone(), json!({"error": format!("read: {e}")}));
                continue;
            }
        };
        match syn::parse_file(&src) {
            Ok(f) => {
                let mut items = vec![];
                items_json(&f.items, "", &mut items);
                res.insert(p.clone(), json!({"items": items, "len": src.len()}));
            }
            Err(e) => {
                res.insert(p.clone(), json!({"error": format!("parse: {e}")}));
            }
        }
    }
    println!("{}", serde_json::to_string(&Value::Object(res)).unwrap());
}
