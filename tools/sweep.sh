#!/bin/bash
# run every property's quick (or $1=thorough) check, 4 at a time; print the verdict lines
cd "$(dirname "$0")/.."
tier=${1:-quick}
extra=""; if [ -n "${WW_REPO:-}" ]; then extra="--outdir /var/tmp/sweep_out"; fi   # never overwrite /verif/evidence with a run on a scratch copy
for i in $(seq -w 1 20); do echo C$i; done | xargs -P 4 -I{} sh -c "bin/check {} --tier $tier $extra > /tmp/sweep_{}.log 2>&1; echo {} rc=\$? \$(grep -E '^(OK|VIOLATION|KNOWN-FINDING|INCONCLUSIVE)' /tmp/sweep_{}.log | head -3)"
