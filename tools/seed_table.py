#!/usr/bin/env python3
"""Regenerates the seeded-change table of DESIGN.md (between the SEED-TABLE markers) from seeded/*/meta.json."""
import json, glob, re, os
V = os.path.dirname(os.path.dirname(os.path.abspath(__file__)))
rows = []
for d in sorted(glob.glob(V + "/seeded/*/meta.json")):
    m = json.load(open(d)); ob = ""
    for k, v in (m.get("detected_by") or {}).items():
        for l in v.get("lines", []):
            mm = re.search(r"failed obligation: (\S+) in (\S+)", l)
            if mm:
                ob = f"`{mm.group(1)}` in `{mm.group(2)}` (check {k})"; break
        if ob: break
    patch = open(os.path.dirname(d) + "/patch.diff").read()
    files = sorted(set(re.findall(r"^\+\+\+ b/(\S+)", patch, re.M)))
    rows.append((m["name"], "detected" if m.get("detected") else "**missed**", ob or m.get("missed_reason", ""), ", ".join(os.path.basename(f) for f in files)))
det = sum(1 for r in rows if r[1] == "detected")
out = [f"{det} of {len(rows)} detected.", "", "| change | touched file | result | failing obligation (or why missed) |", "|---|---|---|---|"]
out += [f"| {n} | {f} | {r} | {o} |" for (n, r, o, f) in rows]
p = V + "/DESIGN.md"; s = open(p).read()
a, b = "<!-- SEED-TABLE-BEGIN -->", "<!-- SEED-TABLE-END -->"
s = s[:s.index(a) + len(a)] + "\n" + "\n".join(out) + "\n" + s[s.index(b):]
open(p, "w").write(s)
print(det, len(rows))
