#!/usr/bin/env python3
"""benign_redetect.py [Cxx-bK ...] : applies every behaviour-preserving edit under /verif/benign/ to /repo, runs ALL registered quick checks,
undoes it, and writes benign/RESULTS.json. An edit must never produce exit 1 (a VIOLATION on code where the property holds); exit 2
(INCONCLUSIVE: an anchor the unit was written against is gone) is tolerated and counted."""
import sys, os, glob, json, subprocess, re
V = os.path.dirname(os.path.dirname(os.path.abspath(__file__)))
REPO = os.environ.get("WW_REPO", "/repo")
PROPS = ["C%02d" % i for i in range(1, 21)]
only = set(a for a in sys.argv[1:] if not a.startswith("--"))
shard = next((a[8:] for a in sys.argv[1:] if a.startswith("--shard=")), None)  # --shard=i/n with WW_REPO / WW_OUT per shard
OUT = os.environ.get("WW_OUT", "/var/tmp/benign_out")
res_path = V + "/benign/RESULTS.json" if not shard else OUT + "/RESULTS.part.json"
results = json.load(open(res_path)) if os.path.exists(res_path) and only else {}
def sh(cmd, cwd=REPO): return subprocess.run(cmd, shell=True, cwd=cwd, capture_output=True, text=True)
os.makedirs(OUT, exist_ok=True)
for _k, d in enumerate(sorted(glob.glob(V + "/benign/C*-b*.diff"))):
    name = os.path.basename(d)[:-5]
    if only and name not in only: continue
    if shard and _k % int(shard.split("/")[1]) != int(shard.split("/")[0]): continue
    if sh("git diff --quiet").returncode != 0: print("repo dirty"); sys.exit(2)
    if sh(f"git apply {d}").returncode != 0: results[name] = {"error": "patch does not apply"}; continue
    row = {}
    try:
        for p in PROPS:
            r = subprocess.run([V + "/bin/check", p, "--outdir", OUT], cwd=V, capture_output=True, text=True, env=dict(os.environ, WW_REPO=REPO))
            row[p] = r.returncode
            if r.returncode != 0:
                row[p + "_why"] = [l.strip()[:300] for l in (r.stdout + r.stderr).split("\n") if re.search(r"VIOLATION|INCONCLUSIVE|failed obligation", l)][:3]
    finally:
        sh("git checkout -- . && git clean -fdq -- contracts packages")
    results[name] = row
    worst = max(v for k, v in row.items() if isinstance(v, int))
    print(name, "own=%s" % row.get(name[:3]), "worst=%d" % worst, "alarms=" + ",".join(p for p in PROPS if row.get(p) == 1), flush=True)
    json.dump(results, open(res_path, "w"), indent=1, sort_keys=True)
n = len(results); al = sum(1 for r in results.values() if any(v == 1 for v in r.values() if isinstance(v, int)))
inc = sum(1 for k, r in results.items() if r.get(k[:3]) == 2); ok = sum(1 for k, r in results.items() if r.get(k[:3]) == 0)
print(f"{n} edits: {al} with a false alarm in some check; own-property check: {ok} OK, {inc} INCONCLUSIVE")
