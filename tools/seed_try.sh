#!/bin/bash
# usage: tools/seed_try.sh <patch.diff> <prop> [<prop>...]   — applies the patch to /repo, runs the checks, undoes it
set -u
patch="$1"; shift
REPO="${WW_REPO:-/repo}"; OUT="${WW_OUT:-/var/tmp/seed_out}"
cd "$REPO" || exit 2
if ! git diff --quiet; then echo "repo dirty"; exit 2; fi
git apply "$patch" || { echo "patch does not apply"; exit 2; }
for p in "$@"; do
  out=$(cd /verif && WW_REPO="$REPO" bin/check "$p" --outdir "$OUT" 2>&1); rc=$?
  echo "== $p rc=$rc"; echo "$out" | grep -E "VIOLATION|KNOWN|OK property|INCONCLUSIVE|failed obligation" | head -6
done
git checkout -- . ; git clean -fdq -- contracts packages 2>/dev/null
