#!/usr/bin/env python3
"""Regenerates /verif/MANIFEST.json from bin/wwlib/props.py (claimed properties) and properties.jsonl."""
import json, sys, os
sys.path.insert(0, os.path.join(os.path.dirname(os.path.abspath(__file__)), "..", "bin"))
from wwlib import props as P
V = os.path.join(os.path.dirname(os.path.abspath(__file__)), "..")
ids = [json.loads(l)["id"] for l in open(os.path.join(V, "properties.jsonl"))]
checks = []
for i in ids:
    if i not in P.PROPS:
        continue
    c = P.PROPS[i]
    checks.append({
        "property_id": i,
        "quick_cmd": f"bin/check {i} --tier quick",
        "thorough_cmd": f"bin/check {i} --tier thorough",
        "evidence_file": f"/verif/evidence/{i}.json",
        "replay_cmd_template": f"bin/check {i} --replay {{path}}",
        "engine": "verus-contracts",
        "level_claimed": {
            "category": "proof",
            "text": c.get("level_text", "Contracts on the real functions (extracted mechanically from /repo on every run) are discharged by Verus/Z3 for all inputs; the property's clauses are labelled postconditions / lemmas over those contracts."),
            "design_ref": c.get("design_ref", "DESIGN.md section 4, " + i),
        },
        "level_note": "Trusted: prelude contracts for cosmwasm-std/cw-storage-plus (assumed, listed in evidence.trusted_base), environment model where used, extractor rewrites listed in evidence. NOT covered: " + "; ".join(c.get("not_covered", []) or ["-"]) + ". Assumed callee contracts: " + "; ".join(c.get("assumed", []) or ["-"]),
        "technique": c.get("technique", "contract-based deductive verification (Verus requires/ensures on mechanically extracted real functions)"),
    })
na = [{"property_id": i, "reason": P.NOT_APPLICABLE.get(i, "check not built yet (work in progress; DESIGN.md section 4 has the plan)")} for i in ids if i not in P.PROPS]
m = {
    "version": 1,
    "setup_cmd": "bin/setup",
    "hooks": {"guard": "wwcore_verif",
              "enable": "no source hooks are committed to /repo and none is needed: the checks read the working tree (extraction by byte span) and never build or run it, so the guard is unused",
              "baseline_off_cmd": "cd /repo && cargo test --workspace --no-fail-fast --offline",
              "source_commits": [], "add_only": True},
    "engines": [{"name": "verus-contracts", "path": "bin/check", "serves_properties": [c["property_id"] for c in checks],
                 "kind_free_text": "syn-based extractor + trusted Verus prelude + contract files (units/*.vu) -> verus per unit; Verus gives no counterexample, so a VIOLATION line ends no-failing-input-found and the replay file carries the failed obligation with the verifier output (replay = re-verify that obligation on the current tree)"}],
    "checks": checks,
    "notes": "exit 0 held / exit 1 VIOLATION / exit 2 inconclusive machinery problem. known_findings.json lists recorded and fixed findings.",
    "not_applicable": na,
}
json.dump(m, open(os.path.join(V, "MANIFEST.json"), "w"), indent=1)
print("checks:", [c["property_id"] for c in checks], "not_applicable:", len(na))
