#!/usr/bin/env python3
"""Re-runs the registered checks against every seeded change under /verif/seeded (serially) and updates meta.json."""
import os, sys, json, subprocess, glob
sys.path.insert(0, "/verif/bin")
from wwlib import props as P
only = [a for a in sys.argv[1:] if not a.startswith("--")]
# --shard=i/n : every n-th seed starting at i (run n of these side by side, each with WW_REPO=<its own worktree> and WW_OUT=<its own dir>)
shard = next((a[8:] for a in sys.argv[1:] if a.startswith("--shard=")), None)
rows = []
_k = -1
for d in sorted(glob.glob("/verif/seeded/*/")):
    name = os.path.basename(d.rstrip("/"))
    if only and not any(name.startswith(o) for o in only): continue
    if not os.path.exists(d + "meta.json"): continue
    _k += 1
    if shard and _k % int(shard.split("/")[1]) != int(shard.split("/")[0]): continue
    meta = json.load(open(d + "meta.json"))
    props = [meta["property"]] + [p for p in meta.get("also_check", []) if p != meta["property"]]
    props = [p for p in props if p in P.PROPS]
    det = {}
    if props:
        r = subprocess.run(["/verif/tools/seed_try.sh", d + "patch.diff"] + props, capture_output=True, text=True)
        cur = None
        for l in r.stdout.split("\n"):
            if l.startswith("== "):
                cur = l.split()[1]; det[cur] = {"rc": int(l.split("rc=")[1]), "lines": []}
            elif cur and l.strip():
                det[cur]["lines"].append(l.strip())
    meta["detected_by"] = det
    meta["detected"] = any(v["rc"] == 1 for v in det.values())
    json.dump(meta, open(d + "meta.json", "w"), indent=1)
    rows.append((name, {k: v["rc"] for k, v in det.items()}, [l for v in det.values() for l in v["lines"] if "failed obligation" in l][:1]))
for r in rows: print(r)
