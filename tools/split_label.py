#!/usr/bin/env python3
"""split_label.py <unit> <label> [fn]  — debugging aid: re-verifies one function with the `&&&` conjuncts of a labelled
clause turned into separate postconditions, and prints which conjuncts fail.  Not used by the checks."""
import sys, os, re, subprocess
sys.path.insert(0, "/verif/bin")
from wwlib import unit as U
name, label = sys.argv[1], sys.argv[2]
A = U.assemble((name if name.endswith(".vu") else f"/verif/units/{name}.vu"))
text = A.text()
i = text.index(f"/*@L {label}*/")
# clause runs until the next "/*@L " or the function body "{\n" at column 0
m = re.search(r"\n\s*/\*@L |\n\{", text[i:])
clause = text[i + len(f"/*@L {label}*/"):i + m.start()]
clause = re.sub(r"//[^\n]*", "", clause).strip().rstrip(",")
mm = re.match(r"^(.*?==>\s*)?\(\{(.*)\}\)\s*$", clause, re.S)
if not mm:
    print("clause is not of the form [guard ==>] ({ lets; &&& ... })"); print(clause[:400]); sys.exit(1)
guard, body = mm.group(1) or "", mm.group(2)
# split top-level &&&
parts, depth, cur, k = [], 0, [], 0
while k < len(body):
    if body.startswith("&&&", k) and depth == 0:
        parts.append("".join(cur)); cur = []; k += 3; continue
    c = body[k]
    if c in "([{": depth += 1
    if c in ")]}": depth -= 1
    cur.append(c); k += 1
parts.append("".join(cur))
lets, conj = parts[0], [p.strip() for p in parts[1:] if p.strip()]
if not conj:
    conj = [lets.split(";")[-1]]; lets = ";".join(lets.split(";")[:-1]) + ";"
new = "".join(f"/*@C{n}*/ {guard}({{ {lets} {c} }}),\n" for n, c in enumerate(conj))
text2 = text[:i] + new + text[i + m.start():]
out = "/verif/.build/units/split_x.rs"
open(out, "w").write(text2)
fn = sys.argv[3] if len(sys.argv) > 3 else next(f["qual"] for f in A.fns if label in f["labels"]).split("::")[-1].split(">")[-1]
r = subprocess.run(["verus", out, "--rlimit", "50", "--multiple-errors", "30"], capture_output=True, text=True)
failed = sorted(set(int(x) for x in re.findall(r"/\*@C(\d+)\*/", r.stderr)))
for n, c in enumerate(conj):
    print(("FAIL " if n in failed else "ok   ") + re.sub(r"\s+", " ", c)[:200])
other = [l for l in r.stderr.split("\n") if l.startswith("error") and "postcondition" not in l and "aborting" not in l]
for l in other[:10]: print("   other:", l)
print(r.stdout.strip().split("\n")[-1] if r.stdout.strip() else r.stderr[-300:])
