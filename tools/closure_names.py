#!/usr/bin/env python3
"""Fills in / refreshes the parameter-name guard of every `//@closure K` directive from the current tree: `//@closure K a,b`."""
import sys, re, glob, os
sys.path.insert(0, "/verif/bin")
from wwlib import unit, extract as X
for u in sorted(glob.glob("/verif/units/*.vu")):
    X.CLOSURE_SEEN.clear()
    unit.assemble(u)
    seen = {}
    for (q, k, ps) in X.CLOSURE_SEEN: seen[(q, k)] = ps
    lines = open(u).read().split("\n"); cur = None; out = []; n = 0
    for l in lines:
        m = re.match(r"^//@fn (\S+) (\S+)(.*)$", l)
        if m:
            mm = re.search(r"\bseg=(\S+)", m.group(3)); cur = mm.group(1) if mm else m.group(2)
        m = re.match(r"^//@closure (\d+)(.*)$", l)
        if m and cur is not None:
            k = int(m.group(1)); ps = seen.get((cur, k))
            if ps is not None:
                l = f"//@closure {k} " + (",".join(ps) if ps else "-"); n += 1
        out.append(l)
    open(u, "w").write("\n".join(out))
    print(os.path.basename(u), n)
