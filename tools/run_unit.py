#!/usr/bin/env python3
"""run_unit.py <unit> [fn-filter] — assemble one unit from /repo and run Verus on it (development aid; prints the classified diagnostics)."""
import sys, os, json, time
sys.path.insert(0, os.path.join(os.path.dirname(os.path.abspath(__file__)), "..", "bin"))
from wwlib import unit as U
from wwlib.extract import VERIF
name = sys.argv[1]
A = U.assemble(os.path.join(VERIF, "units", name + ".vu"), None)
out = os.path.join("/var/tmp/run_unit", f"{name}.rs")
os.makedirs(os.path.dirname(out), exist_ok=True)
t = time.time()
res = U.run_verus(A, out)
print("status", res.get("status"), "verified", res.get("verified"), "errors", len(res.get("errors", [])), "wall %.1fs" % (time.time() - t), out)
for e in res.get("errors", []):
    if len(sys.argv) > 2 and sys.argv[2] not in str(e.get("fn")): continue
    print("-", e.get("class"), e.get("fn"), e.get("label"), e.get("where"), (e.get("msg") or "")[:300])
