#!/usr/bin/env python3
"""seed_confirm.py <worktree> <outdir> <name> <property> <crate-args> <demo-args> [--detect P1,P2]
Confirms a seeded change myself: (1) clean+demo passes, (2) patch+demo fails, (3) patch alone: existing tests of
the given crates pass; then stores it under /verif/seeded/<name>/ with meta.json."""
import sys, os, subprocess, json, shutil, time
wt, out, name, prop, crate_args, demo_args = sys.argv[1:7]
detect = sys.argv[8].split(",") if len(sys.argv) > 8 and sys.argv[7] == "--detect" else [prop]
env = dict(os.environ, CARGO_NET_OFFLINE="true")
def sh(cmd, cwd=wt):
    r = subprocess.run(cmd, shell=True, cwd=cwd, capture_output=True, text=True, env=env)
    return r.returncode, (r.stdout + r.stderr)
def clean():
    sh("git checkout -- . && git clean -fdq -e _out")
ran = []
clean()
rc, o = sh(f"git apply {out}/demo.diff"); assert rc == 0, o
c1 = f"cargo test --offline {demo_args}"
rc1, o1 = sh(c1); ran.append({"cmd": "clean tree + demo: " + c1, "rc": rc1, "tail": o1[-400:]})
rc, o = sh(f"git apply {out}/patch.diff"); assert rc == 0, o
rc2, o2 = sh(c1); ran.append({"cmd": "mutated tree + demo: " + c1, "rc": rc2, "tail": o2[-600:]})
clean()
rc, o = sh(f"git apply {out}/patch.diff"); assert rc == 0, o
c3 = f"cargo test --offline {crate_args}"
rc3, o3 = sh(c3); ran.append({"cmd": "mutated tree, existing tests: " + c3, "rc": rc3, "tail": "\n".join(l for l in o3.split("\n") if l.startswith("test result"))[-600:]})
clean()
ok = (rc1 == 0 and rc2 != 0 and rc3 == 0)
print(name, "CONFIRMED" if ok else "NOT CONFIRMED", rc1, rc2, rc3)
if not ok:
    for r in ran: print(r)
    sys.exit(1)
# run my checks against it
det = {}
r = subprocess.run(["/verif/tools/seed_try.sh", f"{out}/patch.diff"] + detect, capture_output=True, text=True)
cur = None
for l in r.stdout.split("\n"):
    if l.startswith("== "):
        cur = l.split()[1]; det[cur] = {"rc": int(l.split("rc=")[1]), "lines": []}
    elif cur and l.strip():
        det[cur]["lines"].append(l.strip())
d = f"/verif/seeded/{name}"
os.makedirs(d, exist_ok=True)
shutil.copy(f"{out}/patch.diff", d); shutil.copy(f"{out}/demo.diff", d); shutil.copy(f"{out}/README.md", d + "/README.agent.md")
readme = open(f"{out}/README.md").read()
meta = {"property": prop, "name": name, "source": "independent sub-agent given only the property text and a scratch worktree",
        "needs_to_manifest": next((p.strip() for p in readme.split("## ") if p.lower().startswith("what is needed")), "")[:1200],
        "confirmed_by_me": ran, "detected_by": {k: v for k, v in det.items()},
        "detected": any(v["rc"] == 1 for v in det.values()), "confirmed_at": time.strftime("%Y-%m-%d %H:%M")}
json.dump(meta, open(d + "/meta.json", "w"), indent=1)
print("   detection:", {k: v["rc"] for k, v in det.items()})
