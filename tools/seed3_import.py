#!/usr/bin/env python3
"""seed3_import.py <Cxx> <mK> <newname> : derive the crate / demo arguments from the diffs and call seed_confirm.py"""
import sys, re, os, subprocess
pid, mk, name = sys.argv[1:4]
wt = os.environ.get("SEEDDIR", "/tmp/seed3") + f"/{pid}"; out = f"{wt}/_out/{mk}"
def crate_of(path):
    d = os.path.dirname(path)
    while d and not os.path.exists(os.path.join(wt, d, "Cargo.toml")): d = os.path.dirname(d)
    txt = open(os.path.join(wt, d, "Cargo.toml")).read()
    return re.search(r'(?m)^name\s*=\s*"([^"]+)"', txt).group(1), d
patch_files = re.findall(r"(?m)^diff --git a/(\S+)", open(out + "/patch.diff").read())
demo_new = re.findall(r"(?m)^\+\+\+ b/(\S+)", open(out + "/demo.diff").read())
crates = sorted({crate_of(f)[0] for f in patch_files})
extra = []
if any("pool-network" in f or "vault-network" in f or "fee_distributor" in f or "whale_lair" in f for f in patch_files): extra = ["fee_collector"]
crate_args = " ".join(f"-p {c}" for c in sorted(set(crates + extra)))
demo_args = None
for f in demo_new:
    c, d = crate_of(f)
    rel = os.path.relpath(f, d)
    if rel.startswith("tests/") and rel.endswith(".rs") and rel.count("/") == 1:
        demo_args = f"-p {c} --test {os.path.basename(rel)[:-3]}"; break
if demo_args is None:
    for f in demo_new:
        c, d = crate_of(f)
        if f.endswith(".rs") and "/tests/" in f and not f.endswith("mod.rs"):
            demo_args = f"-p {c} {os.path.basename(f)[:-3]}"; break
print(name, "| crates:", crate_args, "| demo:", demo_args, flush=True)
sys.exit(subprocess.run(["python3", "/verif/tools/seed_confirm.py", wt, out, name, pid, crate_args, demo_args]).returncode)
